#!/bin/bash
# native_seed.sh <seed-dir> <spec.c> <harness> [defines...] : pre-screen — run a bounded harness natively against the seeded source
sd=$1; spec=$2; h=$3; shift 3
t=$(mktemp -d /tmp/ns.XXXX); cp -r /repo/src /repo/include $t/; (cd $t && patch -p1 -s < $sd/patch.diff) || { echo "patch failed"; rm -rf $t; exit 2; }
extra=""; case $(basename $spec) in s_vector.c|s_string.c) extra="$t/src/array.c $t/src/memory.c $t/src/common.c";; s_sortb.c|s_stringb.c) extra="$t/src/common.c";; esac
gcc -g -O1 -std=gnu11 -fsanitize=address,undefined -DVF_NATIVE -D_GNU_SOURCE "$@" -I$t/src -I$t/include -I/verif/spec $spec /verif/replay/native_main.c $extra -o $t/x -lm 2>$t/cc.log || { echo "build failed"; tail -3 $t/cc.log; rm -rf $t; exit 2; }
ASAN_OPTIONS=detect_leaks=0 $t/x $h 2>&1 | grep -E "NATIVE-CHECK-FAILED|NATIVE-RESULT|NATIVE-SIGNAL|ERROR: Addr|runtime error" | sort | uniq -c | sort -rn | head -4
rm -rf $t
