#!/bin/bash
# run_seed.sh <seed-dir> <property> [tier]: run the property's check against a scratch worktree of /repo
# with the seeded patch applied (VF_REPO), writing logs/evidence to a scratch VF_OUT; prints one line.
sd=$1; prop=$2; tier=${3:-quick}
name=$(basename $sd)
wt=/tmp/seedrun_$name
git -C /repo worktree add -q --detach $wt HEAD || exit 2
git -C $wt apply $sd/patch.diff || { echo "$name: patch does not apply"; git -C /repo worktree remove --force $wt; exit 2; }
out=/tmp/seedout_$name; rm -rf $out; mkdir -p $out
t0=$(date +%s)
VF_REPO=$wt VF_OUT=$out /verif/vf check $prop --tier $tier > $out/check.log 2>&1; rc=$?
t1=$(date +%s)
viol=$(grep -c "^VIOLATION" $out/check.log)
repro=$(grep "^VIOLATION" $out/check.log | grep -vc "no-failing-input-found")
groups=$(grep "^VIOLATION" $out/check.log | sed 's/.*replay=\S*\/\([^/]*\)\.json.*/\1/' | tr '\n' ' ')
echo "$name $prop tier=$tier exit=$rc violations=$viol reproduced_natively=$repro wall=$((t1-t0))s groups: $groups" | tee -a /verif/out/seed_results.txt
mkdir -p /verif/out/seedlogs; cp $out/check.log /verif/out/seedlogs/$name.$prop.log
git -C /repo worktree remove --force $wt; rm -rf $out
