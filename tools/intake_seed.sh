#!/bin/bash
# intake_seed.sh <property> <worktree>: confirm seed/1, seed/2 of a sub-agent's worktree and copy the confirmed
# ones to /verif/seeded/<property>-<k> (next free k)
p=$1; wt=$2
for n in 1 2 3; do
  [ -d $wt/seed/$n ] || continue
  if /verif/tools/confirm_seed.sh $wt $n; then
    k=1; while [ -d /verif/seeded/$p-$k ]; do k=$((k+1)); done
    mkdir -p /verif/seeded/$p-$k
    cp $wt/seed/$n/patch.diff $wt/seed/$n/demo.c $wt/seed/$n/README.txt /verif/seeded/$p-$k/
    echo "confirmed: $wt/seed/$n -> seeded/$p-$k"
  else
    echo "NOT confirmed: $wt/seed/$n"
  fi
done
