#!/bin/bash
# confirm_seed.sh <worktree> <seed-no> : (a) with the patch the test-suite passes, (b) demo fails with / passes without.
# The demo is built with all library sources except the ones it #includes itself.
wt=$1; n=$2
cd $wt || exit 2
git checkout -q -- . ; 
build_demo() {
  if grep -q '#include "src/' seed/$n/demo.c; then srcs=""; else srcs=$(ls src/*.c | grep -v -e check.c -e _string.c); fi
  gcc -g -std=gnu99 -fsanitize=address,undefined -I. -Iinclude -o /tmp/seed_demo_$$ seed/$n/demo.c $srcs -lm 2>/tmp/seed_cc_$$.log || { echo "demo build failed"; tail -5 /tmp/seed_cc_$$.log; return 2; }
}
build_demo || exit 2
ASAN_OPTIONS=detect_leaks=1 /tmp/seed_demo_$$ >/tmp/seed_out0_$$ 2>&1; r0=$?
git apply seed/$n/patch.diff || { echo "patch does not apply"; exit 2; }
make test >/tmp/seed_mt_$$ 2>&1; t=$(grep -c "100%: Checks: 52, Failures: 0, Errors: 0" /tmp/seed_mt_$$)
build_demo; ASAN_OPTIONS=detect_leaks=1 /tmp/seed_demo_$$ >/tmp/seed_out1_$$ 2>&1; r1=$?
git checkout -q -- . ; make clean >/dev/null 2>&1
echo "seed $wt/$n: demo without patch exit=$r0, suite with patch green=$t, demo with patch exit=$r1"
rm -f /tmp/seed_*_$$
[ "$r0" = 0 ] && [ "$t" = 1 ] && [ "$r1" != 0 ]
