/* Contracts for /repo/src/heap.c (C07, C15), with /repo/src/bintree.c and cstl_fls of /repo/src/common.c.
 *
 * P groups cstl_fls for all 2^64 inputs (DFCC contract, the 6-iteration loop closed by unwinding);
 *          the index arithmetic of cstl_heap_find for every node number (FAILS on the pinned tree:
 *          1 << 31 in signed int for numbers >= 2^31 - 1, see the report / g_heap.py).
 * S group  cstl_heap_promote_child on an explicit neighbourhood of distinct node objects (every
 *          combination of present/absent neighbours enumerated by concrete loops).
 * B groups the whole operations executed on concrete heaps; the reference model is the set of
 *          element ids currently in the heap; after EVERY operation the tree is walked by level-order
 *          number and compared with the model (completeness, back links, heap order, multiset, size, get).
 *          The same harness text compiles natively (-DVF_NATIVE) for replay.
 *
 * The container-of casts of bintree.c / heap.c are normalised in the scratch copy (vflib/prep.py).
 */
#include "vf.h"
#include <stdlib.h>

#ifdef VF_FLS
int cstl_fls(const unsigned long x)
ENSURES(x == 0 ? RESULT == -1 : (RESULT >= 0 && RESULT < 64 && (x >> RESULT) == 1))
ASSIGNS()
;
#endif

#include "common.c"
#include "bintree.c"
#include "heap.c"

size_t vf_w_x, vf_w_id;      /* witnesses (inputs of the P harnesses), visible in the trace and to the native replay */

struct vf_el { int key; int id; struct cstl_heap_node hn; int poisoned; };
#define VF_POOL 8
static struct vf_el vf_pool[VF_POOL];
/* in the "free" variant of the clear
 * harness the entries are heap objects that the callback releases, so that any later access by the
 * library is a use-after-free (found by CBMC's pointer checks, natively by ASan) */
#ifdef VF_CLR_FREE
static struct vf_el * vf_ptr[VF_POOL];
#define EL(i)     (vf_ptr[i])
#define LIVE(i)   (vf_ptr[i] != NULL)
#else
#define EL(i)     (&vf_pool[i])
#define LIVE(i)   1
#endif
#define ELEM(i)   ((void *)EL(i))
#define NODE(i)   (&EL(i)->hn.bn)

/* ------------------------------------------------------------------ P: cstl_fls */
#ifdef VF_FLS
void h_fls(void)
{
    int r;
    VF_IN_SIZE(x);
    r = cstl_fls((unsigned long)vf_w_x);
    VF_ASSERT(vf_w_x == 0 ? r == -1 : (r >= 0 && r < 64 && ((unsigned long)vf_w_x >> r) == 1), "fls: index of the highest set bit, -1 for 0");
    VF_END();
}
#endif

/* ------------------------------------------------------------------ P: index arithmetic of cstl_heap_find */
#ifdef VF_FIND
/* push looks up node (size-1)/2, pop node size-1; the lookup must be defined for every such number.
 * With an empty tree the descent loop does not run, so only the arithmetic that turns the number into
 * the bit mask (1 << cstl_fls(id + 1)) >> 1 is exercised -- for every id with id + 1 <= UINT_MAX. */
void h_find(void)
{
    struct cstl_heap h;
    VF_IN_SIZE(id);
    VF_ASSUME(vf_w_id < UINT_MAX);
    cstl_heap_init(&h, NULL, NULL, 0);
    VF_ASSERT(cstl_heap_find(&h, (unsigned int)vf_w_id) == NULL, "find: nothing is found in an empty tree, whatever the number");
    VF_END();
}
/* The descent itself, for EVERY level-order number id < 2^32 - 1 and every step j of it: the node with
 * number id lies d = floor(log2(id + 1)) levels below the root, and step j (1..d) goes left or right
 * as bit d - j of id + 1 says.  The tree is a recording structure: P[k] is "depth k, step j not yet
 * taken" (both children lead on), at depth j - 1 the left child enters chain A and the right child
 * chain B, which lead on in both directions.  j is arbitrary, so every step is checked; the loop has
 * at most 32 iterations and is closed by unwinding.  (Seeded change C07-6 computes a wrong mask for
 * numbers >= 513 only.) */
size_t vf_w_off;
/* get: the element that embeds the root node (for every node offset), NULL exactly for an empty heap;
 * nothing is written */
void h_get(void)
{
    static struct { long pad[5]; struct cstl_bintree_node n; } E;
    struct cstl_heap h, before;
    const void * r;
    VF_IN_SIZE(off);
    VF_ASSUME(vf_w_off <= 40);
    cstl_heap_init(&h, NULL, NULL, 0);
    h.bt.off = vf_w_off;
    h.bt.size = nondet_size_t();
    h.bt.root = nondet_bool() ? &E.n : NULL;
    before = h;
    r = cstl_heap_get(&h);
    VF_ASSERT(h.bt.root == NULL ? r == NULL : r == (const void *)((const char *)&E.n - vf_w_off), "get: the element embedding the root node, NULL exactly for an empty heap");
    VF_ASSERT(h.bt.root == before.bt.root && h.bt.size == before.bt.size && h.bt.off == before.bt.off, "get: the heap is not written");
    VF_END();
}
static struct cstl_bintree_node vf_P[34], vf_A[34], vf_B[34];
size_t vf_w_j;
void h_find_path(void)
{
    struct cstl_heap h;
    struct cstl_bintree_node * res;
    unsigned int loc, d, k;
    VF_IN_SIZE(id); VF_IN_SIZE(j);
    VF_ASSUME(vf_w_id < UINT_MAX && vf_w_j >= 1 && vf_w_j <= 32);
    for (k = 0; k < 33; k++) {
        vf_P[k].l = vf_P[k].r = &vf_P[k + 1];
        vf_A[k].l = vf_A[k].r = &vf_A[k + 1];
        vf_B[k].l = vf_B[k].r = &vf_B[k + 1];
    }
    vf_P[vf_w_j - 1].l = &vf_A[vf_w_j];
    vf_P[vf_w_j - 1].r = &vf_B[vf_w_j];
    cstl_heap_init(&h, NULL, NULL, 0);
    h.bt.root = &vf_P[0];
    loc = (unsigned int)vf_w_id + 1;
    for (d = 0, k = loc; k > 1; k >>= 1) { d++; }               /* d = floor(log2(loc)) */
    res = cstl_heap_find(&h, (unsigned int)vf_w_id);
    if (vf_w_j > d) {
        VF_ASSERT(res == &vf_P[d], "find: the descent takes exactly floor(log2(id + 1)) steps");
    } else if (((loc >> (d - (unsigned int)vf_w_j)) & 1u) == 0) {
        VF_ASSERT(res == &vf_A[d], "find: step j goes LEFT when bit (depth - j) of id + 1 is 0, and the descent has the right length");
    } else {
        VF_ASSERT(res == &vf_B[d], "find: step j goes RIGHT when bit (depth - j) of id + 1 is 1, and the descent has the right length");
    }
    VF_END();
}
#endif

/* ------------------------------------------------------------------ S: promote_child */
#ifdef VF_STEP
/* explicit neighbourhood: G grandparent (or P is the root), X the other child of G, P parent, C child,
 * S sibling of C, CL/CR the children of C, W a sentinel standing for everything further away */
static struct cstl_bintree_node vf_G, vf_X, vf_P, vf_C, vf_S, vf_CL, vf_CR, vf_W, vf_GG;
void h_step(void)
{
    int gp, side, hs, hl, hr;
    for (gp = 0; gp < 3; gp++) {           /* 0: P is the root, 1: P is G's left child, 2: P is G's right child */
        for (side = 0; side < 2; side++) {  /* 0: C is P's left child, 1: right */
            for (hs = 0; hs < 2; hs++) { for (hl = 0; hl < 2; hl++) { for (hr = 0; hr < 2; hr++) {
                struct cstl_heap h;
                struct cstl_bintree_node * const s = hs ? &vf_S : NULL, * const cl = hl ? &vf_CL : NULL, * const cr = hr ? &vf_CR : NULL;
                struct cstl_bintree_node * const g = gp ? &vf_G : NULL;
                cstl_heap_init(&h, NULL, &vf_W, 24);
                h.bt.size = 11;
                h.bt.root = gp ? &vf_G : &vf_P;
                vf_GG.p = vf_GG.l = vf_GG.r = &vf_W;
                vf_W.p = vf_W.l = vf_W.r = NULL;
                vf_G.p = &vf_GG; vf_G.l = gp == 1 ? &vf_P : &vf_X; vf_G.r = gp == 2 ? &vf_P : &vf_X;
                vf_X.p = &vf_G; vf_X.l = vf_X.r = &vf_W;
                vf_P.p = g; vf_P.l = side == 0 ? &vf_C : s; vf_P.r = side == 1 ? &vf_C : s;
                vf_C.p = &vf_P; vf_C.l = cl; vf_C.r = cr;
                vf_S.p = &vf_P; vf_S.l = vf_S.r = &vf_W;
                vf_CL.p = &vf_C; vf_CL.l = vf_CL.r = &vf_W;
                vf_CR.p = &vf_C; vf_CR.l = vf_CR.r = &vf_W;

                cstl_heap_promote_child(&h, &vf_C);

                /* C took P's place under G (or as the root) */
                VF_ASSERT(vf_C.p == g, "promote: the child's parent is the old grandparent (NULL at the root)");
                if (gp == 0) { VF_ASSERT(h.bt.root == &vf_C, "promote: at the root the tree's root becomes the child"); }
                else { VF_ASSERT(h.bt.root == &vf_G, "promote: below the root the tree's root is unchanged"); }
                VF_ASSERT(vf_G.l == (gp == 1 ? &vf_C : &vf_X) && vf_G.r == (gp == 2 ? &vf_C : &vf_X) && vf_G.p == &vf_GG,
                          "promote: the grandparent's slot of the parent now holds the child, its other links are unchanged");
                /* P hangs below C on the side C was on, the sibling keeps its side */
                VF_ASSERT(vf_P.p == &vf_C, "promote: the old parent's parent is the child");
                VF_ASSERT((side == 0 ? vf_C.l : vf_C.r) == &vf_P, "promote: the old parent is the child's child on the same side");
                VF_ASSERT((side == 0 ? vf_C.r : vf_C.l) == s, "promote: the sibling stays on its side, now below the child");
                if (hs) { VF_ASSERT(vf_S.p == &vf_C, "promote: the sibling's parent is the child"); }
                /* C's children moved to P */
                VF_ASSERT(vf_P.l == cl && vf_P.r == cr, "promote: the old parent takes over the child's children, sides kept");
                if (hl) { VF_ASSERT(vf_CL.p == &vf_P, "promote: left grandchild points back at the old parent"); }
                if (hr) { VF_ASSERT(vf_CR.p == &vf_P, "promote: right grandchild points back at the old parent"); }
                /* frame */
                VF_ASSERT(vf_S.l == &vf_W && vf_S.r == &vf_W && vf_CL.l == &vf_W && vf_CL.r == &vf_W && vf_CR.l == &vf_W && vf_CR.r == &vf_W
                          && vf_X.p == &vf_G && vf_X.l == &vf_W && vf_X.r == &vf_W, "promote: the child links of the neighbours are unchanged");
                if (!hs) { VF_ASSERT(vf_S.p == &vf_P, "promote: an absent sibling object is untouched"); }
                if (!hl) { VF_ASSERT(vf_CL.p == &vf_C, "promote: an absent left grandchild object is untouched"); }
                if (!hr) { VF_ASSERT(vf_CR.p == &vf_C, "promote: an absent right grandchild object is untouched"); }
                if (!gp) { VF_ASSERT(vf_G.l == &vf_X && vf_G.r == &vf_X, "promote: an absent grandparent object is untouched"); }
                VF_ASSERT(vf_GG.p == &vf_W && vf_GG.l == &vf_W && vf_GG.r == &vf_W && vf_W.p == NULL && vf_W.l == NULL && vf_W.r == NULL,
                          "promote: nodes further away are untouched");
                VF_ASSERT(h.bt.size == 11 && h.bt.off == 24 + offsetof(struct cstl_heap_node, bn) && h.bt.cmp.func == NULL && h.bt.cmp.priv == &vf_W,
                          "promote: size, offset and compare function of the heap are unchanged");
                VF_REACH(gp == 2 && side == 1 && hs && hl && hr, "full neighbourhood exercised");
            } } }
        }
    }
    VF_END();
}
#endif

/* ------------------------------------------------------------------ B: reference-model checks */
static int vf_cmp_key(const void * a, const void * b, void * p)
{
    const struct vf_el * x = a, * y = b;
    VF_ASSERT(p == VF_CMP_PRIV, "heap: the compare function is handed the private pointer given at init");
    VF_ASSERT(!x->poisoned && !y->poisoned, "heap: the compare function is never given a cleared element");
    /* only the SIGN of the result is specified.  Default: -1 / 0 / +1 (two children that both exceed
     * their parent score the same); -DVF_CMP_MAG: the magnitude follows a fixed pattern over the calls
     * (seeded change C07-2 compares magnitudes of two results and is invisible to a subtracting
     * comparator, which the first version of this harness used) */
#ifdef VF_CMP_MAG
    {
        static const int mag[4] = { 3, 1, 1, 2 };
        static unsigned calls;
        const int m = mag[calls++ % 4];
        return x->key > y->key ? m : (x->key < y->key ? -m : 0);
    }
#else
    return (x->key > y->key) - (x->key < y->key);
#endif
}

static void vf_setup(void)
{
    int i;
    for (i = 0; i < VF_POOL; i++) {
#ifdef VF_CLR_FREE
        vf_ptr[i] = &vf_pool[i];
#endif
        EL(i)->id = i; EL(i)->key = 0; EL(i)->poisoned = 0;
    }
}

/* reference model: in[id] != 0 iff element id is in the heap, n = how many */
struct vf_model { int in[VF_POOL]; int n; };

/* The checker below is the specification's own code.  Each tree link is compared with the addresses of
 * the pool elements (and asserted to be one of them) before it is followed, so CBMC's generic pointer
 * checks inside the checker add nothing but symbolic-execution time (measured: -40%); they stay enabled
 * for all library code, for the callbacks, and everywhere in the malloc/free variant. */
#if !defined(VF_NATIVE) && !defined(VF_CLR_FREE)
#pragma CPROVER check push
#pragma CPROVER check disable "pointer"
#pragma CPROVER check disable "pointer-overflow"
#pragma CPROVER check disable "pointer-primitive"
#endif
static int vf_id_of_node(const struct cstl_bintree_node * b)
{
    /* the id is read from the element that would contain the node and then validated against the
     * address of that pool element: the result is i iff b is the node of pool element i, else -1
     * (a foreign pointer yields some value that fails the validation) */
    int i;
    if (b == NULL) return -1;
    i = ((const struct vf_el *)((const char *)b - offsetof(struct vf_el, hn.bn)))->id;
    return (i >= 0 && i < VF_POOL && LIVE(i) && b == NODE(i)) ? i : -1;
}
static int vf_id_of_elem(const void * e)
{
    /* compared as node addresses (element address + offset of the node member): the library's result is
     * "node address - offset", and "+ offset" folds back to the node address during symbolic execution,
     * which keeps the reference model concrete */
    return e == NULL ? -1 : vf_id_of_node((const struct cstl_bintree_node *)((const char *)e + offsetof(struct vf_el, hn.bn)));
}
static int vf_model_max(const struct vf_model * m)
{
    int i, mx = INT_MIN;
    for (i = 0; i < VF_POOL; i++) if (m->in[i] && EL(i)->key > mx) mx = EL(i)->key;
    return mx;
}

/* the tree equals the model: node number k (root 0, children 2k+1 and 2k+2) exists iff k < size */
static void vf_check_heap(struct cstl_heap * h, const struct vf_model * m)
{
    struct cstl_bintree_node * node[VF_POOL + 1];
    int id[VF_POOL + 1], seen[VF_POOL], k, i;
    const int n = m->n;
    const void * top;
    VF_ASSERT(cstl_heap_size(h) == (size_t)n, "heap: size equals the number of elements pushed and not yet popped");
    for (i = 0; i < VF_POOL; i++) seen[i] = 0;
    if (n == 0) {
        VF_ASSERT(h->bt.root == NULL, "heap: an empty heap has no root");
    }
    for (k = 0; k < n; k++) {
        struct cstl_bintree_node * const par = k == 0 ? NULL : node[(k - 1) / 2];
        node[k] = k == 0 ? h->bt.root : ((k % 2) ? par->l : par->r);
        VF_ASSERT(node[k] != NULL, "heap: complete tree: every level-order position below size is occupied");
        id[k] = vf_id_of_node(node[k]);
        VF_ASSERT(id[k] >= 0 && m->in[id[k]], "heap: every node of the tree is an element that was pushed and not yet popped");
        if (id[k] < 0) return;          /* already reported; the remaining checks need a pool element */
        VF_ASSERT(!seen[id[k]], "heap: no element occurs twice in the tree");
        seen[id[k]] = 1;
        VF_ASSERT(node[k]->p == par, "heap: the parent link points back at the parent (NULL at the root)");
        if (k > 0) {
            VF_ASSERT(EL(id[(k - 1) / 2])->key >= EL(id[k])->key, "heap: heap order: a parent compares >= each of its children");
        }
    }
    for (k = 0; k < n; k++) {
        if (2 * k + 1 >= n) { VF_ASSERT(node[k]->l == NULL, "heap: complete tree: no node at a level-order position >= size (left)"); }
        if (2 * k + 2 >= n) { VF_ASSERT(node[k]->r == NULL, "heap: complete tree: no node at a level-order position >= size (right)"); }
    }
    for (i = 0; i < VF_POOL; i++) {
        VF_ASSERT(!m->in[i] == !seen[i], "heap: the elements in the tree are exactly those of the reference model");
    }
    top = cstl_heap_get(h);
    if (n == 0) {
        VF_ASSERT(top == NULL, "heap: get on an empty heap returns NULL");
    } else {
        const int t = vf_id_of_elem(top);
        VF_ASSERT(t >= 0 && m->in[t], "heap: get returns an element that is in the heap");
        VF_ASSERT(EL(t)->key == vf_model_max(m), "heap: get returns an element that compares >= every other element");
    }
}

#if !defined(VF_NATIVE) && !defined(VF_CLR_FREE)
#pragma CPROVER check pop
#endif
static void vf_push(struct cstl_heap * h, struct vf_model * m, int i, int key)
{
    EL(i)->key = key;
    cstl_heap_push(h, ELEM(i));
    m->in[i] = 1; m->n++;
    vf_check_heap(h, m);
}
static void vf_pop(struct cstl_heap * h, struct vf_model * m)
{
    void * const e = cstl_heap_pop(h);
    if (m->n == 0) {
        VF_ASSERT(e == NULL, "heap: pop on an empty heap returns NULL");
    } else {
        const int t = vf_id_of_elem(e);
        VF_ASSERT(t >= 0 && m->in[t], "heap: pop returns an element that was pushed and is still in the heap");
        VF_ASSERT(EL(t)->key == vf_model_max(m), "heap: pop returns an element that compares >= every other element");
        m->in[t] = 0; m->n--;
    }
    vf_check_heap(h, m);      /* exactly that element is gone, size tracks the count */
}
static void vf_model_init(struct vf_model * m)
{
    int i;
    for (i = 0; i < VF_POOL; i++) m->in[i] = 0;
    m->n = 0;
}
static int vf_free_id(const struct vf_model * m)
{
    int i, r = -1;
    for (i = VF_POOL - 1; i >= 0; i--) if (!m->in[i]) r = i;
    return r;
}

#if defined(VF_B) && VF_B == 1
/* every key sequence of length VF_LENLO..VF_LENHI over {0,1,2}: push all, pop all, pop/get on the empty heap */
#ifndef VF_LENLO
#define VF_LENLO 0
#endif
#ifndef VF_LENHI
#define VF_LENHI 4
#endif
/* optional shard of the key sequences (codes in base 3) of each length: [VF_CODELO, VF_CODEHI) */
#ifndef VF_CODELO
#define VF_CODELO 0
#endif
#ifndef VF_CODEHI
#define VF_CODEHI INT_MAX
#endif
void h_b_seq(void)
{
    int len, code, k;
    vf_setup();
    for (len = VF_LENLO; len <= VF_LENHI; len++) {
        int ncodes = 1;
        for (k = 0; k < len; k++) ncodes *= 3;
        if (ncodes > VF_CODEHI) ncodes = VF_CODEHI;
        for (code = VF_CODELO; code < ncodes; code++) {
            struct cstl_heap h; struct vf_model m; int c = code;
            cstl_heap_init(&h, vf_cmp_key, VF_CMP_PRIV, offsetof(struct vf_el, hn));
            vf_model_init(&m);
            vf_check_heap(&h, &m);
            for (k = 0; k < len; k++) { vf_push(&h, &m, k, c % 3); c /= 3; }
            for (k = 0; k < len; k++) { vf_pop(&h, &m); }
            VF_ASSERT(m.n == 0, "heap: as many pops as pushes empty the heap");
            vf_pop(&h, &m);                      /* one more pop: NULL, still empty (get NULL inside the checker) */
            VF_ASSERT(cstl_heap_get(&h) == NULL && cstl_heap_pop(&h) == NULL && cstl_heap_size(&h) == 0, "heap: get and pop on an empty heap return NULL");
            VF_REACH(len == VF_LENHI && code == ncodes - 1, "last key sequence of the longest length exercised");
        }
    }
    VF_END();
}
#endif

static const int vf_pat[16] = { 3, 1, 4, 1, 5, 9, 2, 6, 5, 3, 5, 8, 9, 7, 9, 3 };
static int vf_pat_n;
static int vf_next_key(void) { return vf_pat[(vf_pat_n++) % 16] % 4; }

#if defined(VF_B) && VF_B == 2
/* interleavings: pops (each followed by a push of the popped or another element) at every size 1..7,
 * push/push/pop ramps, drains; keys 3,1,4,1,5,9,2,6,... mod 4 (ties occur) */
#ifndef VF_MIXMAX
#define VF_MIXMAX 7
#endif
void h_b_mix(void)
{
    int s, k;
    vf_setup();
    for (s = 1; s <= VF_MIXMAX; s++) {
        struct cstl_heap h; struct vf_model m;
        cstl_heap_init(&h, vf_cmp_key, VF_CMP_PRIV, offsetof(struct vf_el, hn));
        vf_model_init(&m);
        vf_pat_n = s;
        for (k = 0; k < s; k++) vf_push(&h, &m, vf_free_id(&m), vf_next_key());
        /* pop / push at size s: the popped element's slot is reused by the next push */
        for (k = 0; k < 3; k++) {
            VF_ASSERT(m.n == s, "mix: pop happens at the intended size");
            vf_pop(&h, &m);
            vf_push(&h, &m, vf_free_id(&m), vf_next_key());
        }
        /* drain to s/2, then ramp up with push, push, pop
         * (for loops with an initialiser: CBMC restarts its unwinding count only when a loop head is
         * entered by fall-through, not when it is the target of the previous loop's exit jump) */
        for (k = 0; m.n > s / 2; k++) vf_pop(&h, &m);
        for (k = 0; m.n < VF_MIXMAX; k++) {
            vf_push(&h, &m, vf_free_id(&m), vf_next_key());
            vf_push(&h, &m, vf_free_id(&m), vf_next_key());
            vf_pop(&h, &m);
        }
        VF_REACH(s == VF_MIXMAX && m.n == VF_MIXMAX, "largest heap reached by the push/push/pop ramp");
        for (k = 0; m.n > 0; k++) vf_pop(&h, &m);
        vf_pop(&h, &m);
        VF_ASSERT(cstl_heap_get(&h) == NULL && cstl_heap_size(&h) == 0, "heap: empty after the drain");
    }
    VF_END();
}
#endif

#if defined(VF_B) && VF_B == 3
/* clear on heaps of size 0..VF_CLRMAX; the callback poisons (variant VF_CLR_FREE: releases) the element */
#ifndef VF_CLRMAX
#define VF_CLRMAX 7
#endif
static int vf_clr_n;
static struct cstl_bintree_node vf_trap;     /* poisoned links point here: following them shows up as a foreign node */
static void vf_clr(void * e, void * p)
{
    const int i = vf_id_of_elem(e);
    VF_ASSERT(p == NULL, "clear: the callback's private pointer is the one documented (NULL)");
    VF_ASSERT(i >= 0, "clear: the callback is given an element of the heap and nothing else");
    if (i >= 0) {
        struct vf_el * el = EL(i);
        VF_ASSERT(!el->poisoned, "clear: each element is handed over at most once");
        el->poisoned = 1;
        el->hn.bn.p = el->hn.bn.l = el->hn.bn.r = &vf_trap;     /* the callback may free / reuse the memory */
#ifdef VF_CLR_FREE
        free(el);
        vf_ptr[i] = NULL;
#endif
    }
    vf_clr_n++;
}
void h_b_clear(void)
{
    int s, k;
    vf_setup();
    vf_trap.p = vf_trap.l = vf_trap.r = &vf_trap;
    for (s = 0; s <= VF_CLRMAX; s++) {
        struct cstl_heap h, fresh; struct vf_model m;
#ifdef VF_CLR_FREE
        for (k = 0; k < VF_POOL; k++) {
            if (vf_ptr[k] == NULL || vf_ptr[k] == &vf_pool[k]) vf_ptr[k] = malloc(sizeof(struct vf_el));
            VF_ASSUME(vf_ptr[k] != NULL);
            vf_ptr[k]->id = k; vf_ptr[k]->key = 0;
        }
#endif
        for (k = 0; k < VF_POOL; k++) EL(k)->poisoned = 0;
        cstl_heap_init(&h, vf_cmp_key, VF_CMP_PRIV, offsetof(struct vf_el, hn));
        cstl_heap_init(&fresh, vf_cmp_key, VF_CMP_PRIV, offsetof(struct vf_el, hn));
        vf_model_init(&m);
        vf_pat_n = 2 * s;
        for (k = 0; k < s; k++) vf_push(&h, &m, k, vf_next_key());
        vf_clr_n = 0;
        cstl_heap_clear(&h, vf_clr);
        VF_ASSERT(vf_clr_n == s, "clear: the callback runs exactly once per element");
#ifdef VF_CLR_FREE
        for (k = 0; k < VF_POOL; k++) VF_ASSERT((vf_ptr[k] == NULL) == (k < s), "clear: exactly the elements of the heap were handed over");
        for (k = 0; k < s; k++) { vf_ptr[k] = malloc(sizeof(struct vf_el)); VF_ASSUME(vf_ptr[k] != NULL); vf_ptr[k]->id = k; vf_ptr[k]->poisoned = 0; }
#else
        for (k = 0; k < VF_POOL; k++) VF_ASSERT(EL(k)->poisoned == (k < s), "clear: exactly the elements of the heap were handed over");
        for (k = 0; k < s; k++) EL(k)->poisoned = 0;
#endif
        VF_ASSERT(h.bt.root == fresh.bt.root && h.bt.size == fresh.bt.size && h.bt.off == fresh.bt.off && h.bt.cmp.func == fresh.bt.cmp.func && h.bt.cmp.priv == fresh.bt.cmp.priv,
                  "clear: the heap equals a freshly initialised one (no root, size 0)");
        vf_model_init(&m);
        vf_check_heap(&h, &m);
        VF_ASSERT(cstl_heap_pop(&h) == NULL, "clear: pop on the cleared heap returns NULL");
        /* usable like a fresh heap: refill three elements, take one out */
        for (k = 0; k < 3; k++) vf_push(&h, &m, k, vf_next_key());
        vf_pop(&h, &m);
        vf_clr_n = 0;
        cstl_heap_clear(&h, vf_clr);
        VF_ASSERT(vf_clr_n == 2 && cstl_heap_size(&h) == 0, "clear: a second clear hands over exactly the two remaining elements");
        VF_REACH(s == VF_CLRMAX, "largest heap cleared");
    }
    VF_END();
}
#endif

#ifdef VF_NATIVE
struct vf_harness { const char * name; void (*fn)(void); };
struct vf_harness vf_harnesses[] = {
#if defined(VF_FLS)
    { "h_fls", h_fls },
#elif defined(VF_FIND)
    { "h_find", h_find }, { "h_find_path", h_find_path }, { "h_get", h_get },
#elif defined(VF_STEP)
    { "h_step", h_step },
#elif defined(VF_B) && VF_B == 1
    { "h_b_seq", h_b_seq },
#elif defined(VF_B) && VF_B == 2
    { "h_b_mix", h_b_mix },
#elif defined(VF_B) && VF_B == 3
    { "h_b_clear", h_b_clear },
#endif
    { NULL, NULL }
};
#endif
