/* Contracts for the array-view part of /repo/src/array.c (C14, C16, C20).
 *
 * cstl_array_t = { shared pointer, off, len } over a descriptor { sz, nm, buf } that lives at
 * the start of the shared allocation; buf points right behind the descriptor (internal) or at
 * a caller-supplied buffer (external).  memory.c is included as well: the shared-pointer
 * functions are verified here with their bodies (no assumed contracts).
 */
#include "vf.h"
#include <stdlib.h>
#include "memory.c"
#include "array.c"

typedef struct cstl_shared_ptr_data vf_blk_t;
typedef struct cstl_raw_array vf_ra_t;

/* ------------------------------------------------------------------ ghost state */
size_t vf_w_off, vf_w_len, vf_w_nm, vf_w_sz, vf_w_beg, vf_w_end, vf_w_i, vf_w_hard, vf_w_soft, vf_w_nm2, vf_w_sz2;

/* ------------------------------------------------------------------ predicates */
#define CNT_MAX         ((size_t)1 << 31)
#define GP_OK(gp)       ((gp)->self == (void *)(gp))
#define BLK(a)          ((vf_blk_t *)(a)->ptr.data.ptr)
#define HARD(b)         (*(size_t *)&(b)->ref.hard)
#define SOFT(b)         (*(size_t *)&(b)->ref.soft)
#define LOCKED(b)       (*(unsigned char *)&(b)->ref.lock != 0)
#define RA(a)           ((vf_ra_t *)BLK(a)->up.gp.ptr)
#ifndef VF_ESZ
#define VF_ESZ 4
#endif
#ifndef VF_ESZ2
#define VF_ESZ2 8
#endif
#define A_NMMAX         ((size_t)1 << 32)
#define A_FRESH(a)      (FRESH(a, sizeof(cstl_array_t)) && GP_OK(&(a)->ptr.data))
#define A_EMPTY(a)      ((a)->ptr.data.ptr == NULL && (a)->len == 0)
/* a live view: one owner count on a well-formed block whose memory is the descriptor */
#define A_BLOCK(a)      (FRESH((a)->ptr.data.ptr, sizeof(vf_blk_t)) && 1 <= HARD(BLK(a)) && HARD(BLK(a)) <= SOFT(BLK(a)) && \
                         SOFT(BLK(a)) < CNT_MAX - 1 && !LOCKED(BLK(a)) && GP_OK(&BLK(a)->up.gp) &&    \
                         BLK(a)->up.clr.func == NULL && vf_w_nm <= A_NMMAX && vf_w_sz == VF_ESZ)
#define A_INTERNAL(a)   (A_BLOCK(a) && FRESH(BLK(a)->up.gp.ptr, sizeof(vf_ra_t) + vf_w_nm * vf_w_sz) &&       \
                         RA(a)->nm == vf_w_nm && RA(a)->sz == vf_w_sz && RA(a)->buf == (void *)(RA(a) + 1))
#define A_EXTERNAL(a)   (A_BLOCK(a) && FRESH(BLK(a)->up.gp.ptr, sizeof(vf_ra_t)) &&                            \
                         RA(a)->nm == vf_w_nm && RA(a)->sz == vf_w_sz && vf_w_nm >= 1 &&                       \
                         FRESH(RA(a)->buf, vf_w_nm * vf_w_sz))
#define A_RANGE(a)      ((vf_u128)(a)->off + (a)->len <= RA(a)->nm)
#define A_WIT(a)        (vf_w_off == (a)->off && vf_w_len == (a)->len)
/* optional case split on the owner counts (exhaustive: 1/1, 1/>1, >1), selected with -DVF_A_CASE */
#if defined(VF_A_CASE) && VF_A_CASE == 1
#define A_CASE(a)       (HARD(BLK(a)) == 1 && SOFT(BLK(a)) == 1)
#elif defined(VF_A_CASE) && VF_A_CASE == 2
#define A_CASE(a)       (HARD(BLK(a)) == 1 && SOFT(BLK(a)) > 1)
#elif defined(VF_A_CASE) && VF_A_CASE == 3
#define A_CASE(a)       (HARD(BLK(a)) > 1)
#else
#define A_CASE(a)       1
#endif
#define A_WITB(a)       (vf_w_hard == HARD(BLK(a)) && vf_w_soft == SOFT(BLK(a)) && A_CASE(a))

#ifdef VF_A_EXTERNAL
#define A_VIEW(a)       (A_FRESH(a) && A_EXTERNAL(a) && A_RANGE(a) && A_WIT(a) && A_WITB(a))
#else
#define A_VIEW(a)       (A_FRESH(a) && A_INTERNAL(a) && A_RANGE(a) && A_WIT(a) && A_WITB(a))
#endif

#ifndef VF_STRAY
/* ------------------------------------------------------------------ contracts */

/* C14: at returns an address inside the live buffer for every index below size, aborts otherwise */
const void * cstl_array_at_const(const cstl_array_t * a, size_t i)
#ifdef VF_A_EMPTY
REQUIRES(A_FRESH(a) && A_EMPTY(a))
ASSIGNS(vf_aborted)
ENSURES(0)
#else
REQUIRES(A_VIEW(a))
ASSIGNS(vf_aborted)
ENSURES(i < a->len)
ENSURES(__CPROVER_same_object(RESULT, RA(a)->buf))
ENSURES((vf_u128)__CPROVER_POINTER_OFFSET(RESULT) == (vf_u128)__CPROVER_POINTER_OFFSET(RA(a)->buf) + ((vf_u128)a->off + i) * RA(a)->sz)
ENSURES((vf_u128)__CPROVER_POINTER_OFFSET(RESULT) + RA(a)->sz <= (vf_u128)__CPROVER_OBJECT_SIZE(RA(a)->buf))
ENSURES(__CPROVER_r_ok(RESULT, RA(a)->sz))
#endif
;

/* C14: slice aborts when end < beg or the range passes the end of the underlying buffer */
void cstl_array_slice(cstl_array_t * const a, const size_t beg, const size_t end, cstl_array_t * const s)
REQUIRES(A_VIEW(a))
#ifdef VF_A_INPLACE
REQUIRES(s == a)
ASSIGNS(a->off, a->len, vf_aborted)
ENSURES(HARD(BLK(a)) == vf_w_hard && SOFT(BLK(a)) == vf_w_soft)
#else
REQUIRES(A_FRESH(s) && A_EMPTY(s))
ASSIGNS(s->off, s->len, s->ptr.data.ptr, s->ptr.data.self, __CPROVER_object_whole(a->ptr.data.ptr), vf_aborted)
ENSURES(a->off == vf_w_off && a->len == vf_w_len)
ENSURES(s->ptr.data.ptr == a->ptr.data.ptr && GP_OK(&s->ptr.data) && GP_OK(&a->ptr.data))
/* the new view holds its own owner count: the buffer lives as long as any view */
ENSURES(HARD(BLK(a)) == vf_w_hard + 1 && SOFT(BLK(a)) == vf_w_soft + 1 && BLK(a)->up.gp.ptr == OLD(BLK(a)->up.gp.ptr))
#endif
ENSURES(beg <= end && (vf_u128)vf_w_off + end <= RA(a)->nm)
ENSURES(s->off == vf_w_off + beg && s->len == end - beg)
ENSURES((vf_u128)s->off + s->len <= RA(a)->nm)
ENSURES(RA(a)->nm == vf_w_nm && RA(a)->sz == vf_w_sz)
;

void cstl_array_unslice(cstl_array_t * const s, cstl_array_t * const a)
REQUIRES(A_VIEW(s))
#ifdef VF_A_INPLACE
REQUIRES(a == s)
ASSIGNS(s->off, s->len, vf_aborted)
#else
REQUIRES(A_FRESH(a) && A_EMPTY(a))
ASSIGNS(a->off, a->len, a->ptr.data.ptr, a->ptr.data.self, __CPROVER_object_whole(s->ptr.data.ptr), vf_aborted)
ENSURES(a->ptr.data.ptr == s->ptr.data.ptr && GP_OK(&a->ptr.data))
ENSURES(HARD(BLK(s)) == vf_w_hard + 1 && SOFT(BLK(s)) == vf_w_soft + 1)
#endif
ENSURES(a->off == 0 && a->len == RA(s)->nm && RA(s)->nm == vf_w_nm)
;

/* C14/C16: alloc gives a view of a fresh buffer of nm elements from offset 0, or an empty object */
void cstl_array_alloc(cstl_array_t * const a, const size_t nm, const size_t sz)
REQUIRES(sz == VF_ESZ2)
#ifdef VF_A_EMPTY
REQUIRES(A_FRESH(a) && A_EMPTY(a))
ASSIGNS(a->off, a->len, a->ptr.data.ptr, a->ptr.data.self)
#else
REQUIRES(A_VIEW(a))
ASSIGNS(a->off, a->len, a->ptr.data.ptr, a->ptr.data.self, __CPROVER_object_whole(a->ptr.data.ptr))
FREES(a->ptr.data.ptr, BLK(a)->up.gp.ptr)
/* the previous view lets go: one owner count less; block and buffer die with the last one */
ENSURES(__CPROVER_was_freed(OLD(BLK(a)->up.gp.ptr)) == (vf_w_hard == 1))
ENSURES(__CPROVER_was_freed(OLD(a->ptr.data.ptr)) == (vf_w_soft == 1))
#endif
ENSURES(GP_OK(&a->ptr.data))
ENSURES((a->ptr.data.ptr == NULL && a->len == 0 && a->off == 0) ||
        (FRESH(a->ptr.data.ptr, sizeof(vf_blk_t)) && HARD(BLK(a)) == 1 && SOFT(BLK(a)) == 1 &&
         a->off == 0 && a->len == nm && RA(a) != NULL && RA(a)->nm == nm && RA(a)->sz == sz &&
         RA(a)->buf == (void *)(RA(a) + 1) &&
         (vf_u128)__CPROVER_OBJECT_SIZE(RA(a)) >= (vf_u128)sizeof(vf_ra_t) + (vf_u128)nm * sz))
;

/* C14: reset lets go of exactly one owner count: the underlying allocation is released exactly when
 * this was the last array object referring to it (descriptor at hard 1 -> 0, bookkeeping block at
 * soft 1 -> 0) and stays alive otherwise; the object is left empty */
#ifdef VF_G_reset
static inline void cstl_array_reset(cstl_array_t * const a)
#ifdef VF_A_EMPTY
REQUIRES(A_FRESH(a) && A_EMPTY(a))
ASSIGNS(a->off, a->len, a->ptr.data.ptr, a->ptr.data.self)
ENSURES(GP_OK(&a->ptr.data) && A_EMPTY(a))
#else
REQUIRES(A_VIEW(a))
ASSIGNS(a->off, a->len, a->ptr.data.ptr, a->ptr.data.self, __CPROVER_object_whole(a->ptr.data.ptr))
FREES(a->ptr.data.ptr, BLK(a)->up.gp.ptr)
ENSURES(GP_OK(&a->ptr.data) && A_EMPTY(a))
ENSURES(__CPROVER_was_freed(OLD(BLK(a)->up.gp.ptr)) == (vf_w_hard == 1))
ENSURES(__CPROVER_was_freed(OLD(a->ptr.data.ptr)) == (vf_w_soft == 1))
ENSURES(vf_w_soft > 1 ==> (HARD((vf_blk_t *)OLD(a->ptr.data.ptr)) == vf_w_hard - 1 && SOFT((vf_blk_t *)OLD(a->ptr.data.ptr)) == vf_w_soft - 1))
#endif
;
/* data: the start of the underlying buffer (not of the view), NULL for an empty object */
const void * cstl_array_data_const(const cstl_array_t * const a)
#ifdef VF_A_EMPTY
REQUIRES(A_FRESH(a) && A_EMPTY(a))
ASSIGNS(vf_aborted)
ENSURES(RESULT == NULL)
#else
REQUIRES(A_VIEW(a))
ASSIGNS(vf_aborted)
ENSURES(RESULT == RA(a)->buf && RESULT != NULL)
#endif
;
#endif

/* C14: release hands an external buffer back only to its sole user, else NULL and no change */
void cstl_array_release(cstl_array_t * const a, void ** const buf)
REQUIRES(A_VIEW(a) && FRESH(buf, sizeof(void *)))
ASSIGNS(*buf, a->off, a->len, a->ptr.data.ptr, a->ptr.data.self, __CPROVER_object_whole(a->ptr.data.ptr))
FREES(a->ptr.data.ptr, BLK(a)->up.gp.ptr)
#ifdef VF_A_EXTERNAL
ENSURES(vf_w_soft == 1 ==> (*buf == OLD(RA(a)->buf) && a->ptr.data.ptr == NULL && a->len == 0 && a->off == 0 &&
                            __CPROVER_was_freed(OLD(a->ptr.data.ptr)) && __CPROVER_r_ok(*buf, vf_w_nm * vf_w_sz)))
ENSURES(vf_w_soft > 1 ==> (*buf == NULL && a->ptr.data.ptr == OLD(a->ptr.data.ptr) && a->off == vf_w_off && a->len == vf_w_len &&
                           HARD(BLK(a)) == vf_w_hard && SOFT(BLK(a)) == vf_w_soft))
#else
ENSURES(*buf == NULL && a->ptr.data.ptr == OLD(a->ptr.data.ptr) && a->off == vf_w_off && a->len == vf_w_len &&
        HARD(BLK(a)) == vf_w_hard && SOFT(BLK(a)) == vf_w_soft)
#endif
;

/* C14: set wraps an external buffer: view of all nm elements from offset 0, or empty */
void cstl_array_set(cstl_array_t * const a, void * const buf, const size_t nm, const size_t sz)
REQUIRES(sz == VF_ESZ2)
REQUIRES(A_FRESH(a) && A_EMPTY(a))
ASSIGNS(a->off, a->len, a->ptr.data.ptr, a->ptr.data.self)
ENSURES(GP_OK(&a->ptr.data))
ENSURES((a->ptr.data.ptr == NULL && a->len == 0 && a->off == 0) ||
        (FRESH(a->ptr.data.ptr, sizeof(vf_blk_t)) && HARD(BLK(a)) == 1 && SOFT(BLK(a)) == 1 &&
         a->off == 0 && a->len == nm && RA(a) != NULL && RA(a)->nm == nm && RA(a)->sz == sz && RA(a)->buf == buf))
;

#else /* VF_STRAY: C20 for array objects -------------------------------------------------- */
#define STRAY_A(a)      (FRESH(a, sizeof(cstl_array_t)) && (a)->ptr.data.self != (void *)&(a)->ptr.data)
#define OK_EMPTY_A(a)   (A_FRESH(a) && (a)->ptr.data.ptr == NULL)
#if VF_STRAY == 1
void cstl_array_alloc(cstl_array_t * const a, const size_t nm, const size_t sz)
REQUIRES(STRAY_A(a)) ASSIGNS(vf_aborted) ENSURES(0);
#elif VF_STRAY == 2
void cstl_array_set(cstl_array_t * const a, void * const buf, const size_t nm, const size_t sz)
REQUIRES(STRAY_A(a)) ASSIGNS(vf_aborted) ENSURES(0);
#elif VF_STRAY == 3
void cstl_array_release(cstl_array_t * const a, void ** const buf)
REQUIRES(STRAY_A(a) && buf == NULL) ASSIGNS(vf_aborted) ENSURES(0);
#elif VF_STRAY == 4
const void * cstl_array_data_const(const cstl_array_t * const a)
REQUIRES(STRAY_A(a)) ASSIGNS(vf_aborted) ENSURES(0);
#elif VF_STRAY == 5
/* at: an index below the (copied) size reaches the pointer; an index beyond it aborts anyway */
const void * cstl_array_at_const(const cstl_array_t * a, size_t i)
REQUIRES(STRAY_A(a)) ASSIGNS(vf_aborted) ENSURES(0);
#elif VF_STRAY == 6
void cstl_array_slice(cstl_array_t * const a, const size_t beg, const size_t end, cstl_array_t * const s)
REQUIRES(STRAY_A(a) && OK_EMPTY_A(s)) ASSIGNS(vf_aborted) ENSURES(0);
#elif VF_STRAY == 7
void cstl_array_unslice(cstl_array_t * const s, cstl_array_t * const a)
REQUIRES(STRAY_A(s) && OK_EMPTY_A(a)) ASSIGNS(vf_aborted) ENSURES(0);
#elif VF_STRAY == 8
static inline void cstl_array_reset(cstl_array_t * const a)
REQUIRES(STRAY_A(a)) ASSIGNS(vf_aborted) ENSURES(0);
#endif
#endif

/* ------------------------------------------------------------------ harnesses */
#ifndef VF_NATIVE
#define A_WIT_IN() do { VF_IN_SIZE(off); VF_IN_SIZE(len); VF_IN_SIZE(nm); VF_IN_SIZE(sz); VF_IN_SIZE(hard); VF_IN_SIZE(soft); } while (0)

#ifdef VF_STRAY
void h_stray(void)
{
    cstl_array_t * a, * b;
    void * p;
#if VF_STRAY == 1
    cstl_array_alloc(a, nondet_size_t(), VF_ESZ2);
#elif VF_STRAY == 2
    cstl_array_set(a, p, nondet_size_t(), VF_ESZ2);
#elif VF_STRAY == 3
    cstl_array_release(a, NULL);
#elif VF_STRAY == 4
    cstl_array_data_const(a);
#elif VF_STRAY == 5
    cstl_array_at_const(a, nondet_size_t());
#elif VF_STRAY == 6
    cstl_array_slice(a, nondet_size_t(), nondet_size_t(), b);
#elif VF_STRAY == 7
    cstl_array_unslice(a, b);
#elif VF_STRAY == 8
    cstl_array_reset(a);
#endif
    VF_END();
}
#else
void h_at(void) { cstl_array_t * a; size_t i = VF_IN_SIZE(i); A_WIT_IN(); cstl_array_at_const(a, i); VF_END(); }
void h_slice(void)
{
    cstl_array_t * a, * s; size_t beg = VF_IN_SIZE(beg), end = VF_IN_SIZE(end);
    A_WIT_IN();
    cstl_array_slice(a, beg, end, s);
    VF_END();
}
#ifdef VF_G_reset
void h_reset(void) { cstl_array_t * a; A_WIT_IN(); cstl_array_reset(a); VF_END(); }
void h_data(void) { cstl_array_t * a; A_WIT_IN(); cstl_array_data_const(a); VF_END(); }
#endif
void h_unslice(void) { cstl_array_t * a, * s; A_WIT_IN(); cstl_array_unslice(s, a); VF_END(); }
void h_alloc(void)
{
    cstl_array_t * a; size_t nm = (vf_w_nm2 = nondet_size_t()), sz = (vf_w_sz2 = VF_ESZ2);   /* literal: keeps nm * sz linear */
    A_WIT_IN();
    cstl_array_alloc(a, nm, sz);
    VF_END();
}
void h_release(void) { cstl_array_t * a; void ** b; A_WIT_IN(); cstl_array_release(a, b); VF_END(); }
void h_set(void)
{
    cstl_array_t * a; void * buf; size_t nm = (vf_w_nm2 = nondet_size_t()), sz = (vf_w_sz2 = VF_ESZ2);
    A_WIT_IN();
    cstl_array_set(a, buf, nm, sz);
    VF_END();
}
#endif

#else /* VF_NATIVE ------------------------------------------------------------------------ */

static cstl_array_t * vf_native_view(void)
{
    cstl_array_t * a = calloc(1, sizeof(*a));
    VF_IN_SIZE(off); VF_IN_SIZE(len); VF_IN_SIZE(nm); VF_IN_SIZE(sz);
    cstl_array_init(a);
    VF_ASSUME(vf_w_sz >= 1 && vf_w_sz <= 64 && vf_w_nm <= ((size_t)1 << 24));
    VF_ASSUME((vf_u128)vf_w_off + vf_w_len <= vf_w_nm);
    cstl_array_alloc(a, vf_w_nm, vf_w_sz);
    VF_ASSUME(cstl_array_data(a) != NULL);
    cstl_array_slice(a, vf_w_off, vf_w_off + vf_w_len, a);     /* reach (off, len) through the API */
    VF_ASSUME(a->off == vf_w_off && a->len == vf_w_len);
    return a;
}

static int vf_nat_in_buffer(cstl_array_t * a, const void * p, size_t nbytes)
{
    const vf_ra_t * ra = cstl_shared_ptr_get_const(&a->ptr);
    const char * lo = ra->buf, * hi = lo + ra->nm * ra->sz;
    return (const char *)p >= lo && (const char *)p + nbytes <= hi;
}

int vf_try(void (*fn)(void *), void * arg);
static void vf_do_slice(void * x) { void ** g = x; cstl_array_slice(g[0], *(size_t *)g[1], *(size_t *)g[2], g[3]); }
static void vf_do_at(void * x) { void ** g = x; g[2] = (void *)cstl_array_at_const(g[0], *(size_t *)g[1]); }

void h_slice(void)
{
    cstl_array_t * a = vf_native_view();
    cstl_array_t sv, * s = &sv;
    size_t beg = VF_IN_SIZE(beg), end = VF_IN_SIZE(end);
    void * g[4];
    int sig;
    cstl_array_init(s);
#ifdef VF_A_INPLACE
    s = a;
#endif
    g[0] = a; g[1] = &beg; g[2] = &end; g[3] = s;
    sig = vf_try(vf_do_slice, g);
    printf("slice(off=%zu,len=%zu of nm=%zu; beg=%zu end=%zu): signal %d\n", vf_w_off, vf_w_len, vf_w_nm, beg, end, sig);
    VF_NCHECK((sig == SIGABRT) == (end < beg || (vf_u128)vf_w_off + end > vf_w_nm),
              "slice aborts exactly when end < beg or the range passes the end of the buffer");
    if (sig == 0 && s->len > 0) {
        void * h[3]; size_t last = s->len - 1;
        h[0] = s; h[1] = &last; h[2] = NULL;
        vf_try(vf_do_at, h);
        VF_NCHECK(h[2] != NULL && vf_nat_in_buffer(s, h[2], vf_w_sz), "last element of the slice lies inside the buffer");
    }
}

void h_at(void)
{
    cstl_array_t * a = vf_native_view();
    size_t i = VF_IN_SIZE(i);
    void * h[3];
    int sig;
    h[0] = a; h[1] = &i; h[2] = NULL;
    sig = vf_try(vf_do_at, h);
    VF_NCHECK((sig == SIGABRT) == (i >= a->len), "at aborts exactly for indices at or beyond size");
    if (sig == 0) {
        VF_NCHECK(vf_nat_in_buffer(a, h[2], vf_w_sz), "at returns an address inside the buffer");
    }
}

void h_alloc(void)
{
    cstl_array_t * a = vf_native_view();
    size_t nm, sz;
    VF_IN_SIZE(nm2); VF_IN_SIZE(sz2);
    nm = vf_w_nm2; sz = vf_w_sz2;
    cstl_array_alloc(a, nm, sz);
    printf("alloc(%zu,%zu) on a view with off=%zu: off=%zu len=%zu data=%p\n", nm, sz, vf_w_off, a->off, a->len, cstl_array_data(a));
    if (cstl_array_data(a) == NULL) {
        VF_NCHECK(a->len == 0, "a failed allocation leaves the object empty");
    } else {
        VF_NCHECK(a->off == 0 && a->len == nm, "a fresh allocation is viewed from offset 0 over all nm elements");
        if (nm > 0) {
            void * h[3]; size_t last = a->len - 1; int sig;
            h[0] = a; h[1] = &last; h[2] = NULL;
            sig = vf_try(vf_do_at, h);
            VF_NCHECK(sig == 0 && h[2] != NULL && vf_nat_in_buffer(a, h[2], sz) &&
                      malloc_usable_size((void *)cstl_shared_ptr_get_const(&a->ptr)) >= sizeof(vf_ra_t) + (vf_u128)nm * sz,
                      "last element lies inside the new allocation");
        }
    }
}

/* further owners of the same buffer, to reach the owner counts the counterexample names
 * (array objects are all owners: hard == soft) */
static cstl_array_t vf_nat_others[8];
static cstl_weak_ptr_t vf_nat_weak[8];
static void vf_nat_owners(cstl_array_t * a)
{
    size_t i;
    VF_IN_SIZE(hard); VF_IN_SIZE(soft);
    VF_ASSUME(vf_w_hard <= vf_w_soft && vf_w_hard >= 1 && vf_w_soft <= 8);
    for (i = 1; i < vf_w_hard; i++) { cstl_array_init(&vf_nat_others[i]); cstl_array_unslice(a, &vf_nat_others[i]); }
    /* weak references to the same bookkeeping block (an array object's handle is a shared pointer) */
    for (i = vf_w_hard; i < vf_w_soft; i++) { cstl_weak_ptr_init(&vf_nat_weak[i]); cstl_weak_ptr_from(&vf_nat_weak[i], &a->ptr); }
}
#ifndef VF_STRAY
void h_reset(void)
{
#ifdef VF_A_EMPTY
    cstl_array_t e; cstl_array_init(&e); cstl_array_reset(&e);
    VF_NCHECK(cstl_array_data(&e) == NULL && cstl_array_size(&e) == 0, "reset of an empty object leaves it empty");
#else
    cstl_array_t * a = vf_native_view();
    vf_nat_owners(a);
    cstl_array_reset(a);
    VF_NCHECK(cstl_array_data(a) == NULL && cstl_array_size(a) == 0, "reset leaves the object empty");
    if (vf_w_hard > 1) VF_NCHECK(cstl_array_data(&vf_nat_others[1]) != NULL, "the buffer stays alive for the other objects that refer to it (ASan: no use after free)");
#endif
}
void h_unslice(void)
{
    cstl_array_t * a = vf_native_view(), other, * s = &other;
    cstl_array_init(&other);
#ifdef VF_A_INPLACE
    s = a;
#endif
    vf_nat_owners(a);
    cstl_array_unslice(a, s);                    /* source view a, destination s (a itself when in place) */
    VF_NCHECK(s->off == 0 && s->len == vf_w_nm && cstl_array_data(s) != NULL, "unslice: the whole buffer, from offset 0");
    if (vf_w_nm > 0) { volatile char c = *(const char *)cstl_array_at_const(s, vf_w_nm - 1); (void)c; }    /* ASan: the buffer is alive */
}
void h_release(void)
{
    cstl_array_t * a = vf_native_view(); void * buf = &buf;
    vf_nat_owners(a);
    cstl_array_release(a, &buf);
    VF_NCHECK(buf == NULL && cstl_array_data(a) != NULL && a->off == vf_w_off && a->len == vf_w_len, "release of an internal buffer: NULL, nothing changes");
}
#endif
#ifdef VF_STRAY
/* C20 replay: a bitwise copy of an array object (empty, and holding a buffer) must end in abort() */
static void vf_stray_call(void * x)
{
    void ** g = x; cstl_array_t * s = g[0], * e = g[1]; void * buf[2];
    (void)e; (void)buf;
#if VF_STRAY == 1
    cstl_array_alloc(s, 4, 8);
#elif VF_STRAY == 2
    cstl_array_set(s, buf, 2, sizeof(buf[0]));
#elif VF_STRAY == 3
    cstl_array_release(s, NULL);
#elif VF_STRAY == 4
    cstl_array_data_const(s);
#elif VF_STRAY == 5
    cstl_array_at_const(s, 0);
#elif VF_STRAY == 6
    cstl_array_slice(s, 0, 0, e);
#elif VF_STRAY == 7
    cstl_array_unslice(s, e);
#elif VF_STRAY == 8
    cstl_array_reset(s);
#endif
}
void h_stray(void)
{
    int live;
    for (live = 0; live < 2; live++) {
        cstl_array_t orig, copy, other; void * g[2]; int sig;
        cstl_array_init(&orig); cstl_array_init(&other);
        if (live) cstl_array_alloc(&orig, 4, 8);
        memcpy(&copy, &orig, sizeof(copy));
        g[0] = &copy; g[1] = &other;
        sig = vf_try(vf_stray_call, g);
        printf("stray array copy (%s): signal %d\n", live ? "with buffer" : "empty", sig);
        VF_NCHECK(sig == SIGABRT, "a call through a bitwise copy of an array object aborts");
    }
}
#endif
struct vf_harness { const char * name; void (*fn)(void); };
struct vf_harness vf_harnesses[] = {
#ifdef VF_STRAY
    { "h_stray", h_stray },
#else
    { "h_slice", h_slice }, { "h_at", h_at }, { "h_alloc", h_alloc }, { "h_reset", h_reset }, { "h_unslice", h_unslice }, { "h_release", h_release },
#endif
    { NULL, NULL }
};
#endif
