/* Bounded element-level checks for /repo/src/hash.c (C03, C04, C19 part).
 *
 * spec/s_hash.c holds the array-level (flat) DFCC contracts of the hash table; this file is the
 * chain-level counterpart: the real library code is executed on CONCRETE small tables (a static
 * pool of 6 elements, keys from {0,1,2,3}, 1..4 buckets, three concrete hash functions) and after
 * every operation compared with a reference model kept in plain arrays (live[], key[]).
 *
 * Two checkers:
 *   passive (vf_check_struct)  white-box walk of the bucket chains, does not touch the table:
 *                              every live element sits in exactly one chain among the buckets
 *                              [0, span), chains are acyclic, node keys equal the model's, every
 *                              node sits in the bucket its (old or pending) hash function names,
 *                              h.count == number of nodes == number of live elements.
 *   active  (vf_check_active)  black-box through cstl_hash_size / cstl_hash_find: every live
 *                              element is found by key with a visit function accepting exactly it,
 *                              a visit function accepting nothing is offered exactly the live
 *                              elements with the key (each once) and find returns NULL, a NULL
 *                              visit function returns some live element with the key (NULL iff
 *                              there is none), no non-live element is ever offered.
 *                              The finds are keyed operations and advance a pending rehash (that
 *                              is intended); to see the table while the rehash is still pending
 *                              after s further operations the scenarios are replayed from scratch
 *                              for every prefix length s and the active checker is run at the end
 *                              of each prefix, starting with a different element each time.
 * Every keyed operation (insert / find / erase, including those issued by the active checker)
 * goes through a monitor that checks the C19 work bound white-box: at most three buckets change
 * their stamp from dirty to clean, rh.clean advances by >= 1 or the rehash completes, and a rehash
 * over `count` buckets is complete after `count` keyed operations.
 *
 * vf.h's realloc model keeps only a ghost window of the old contents (it serves the contract
 * groups); the concrete histories here need the whole bucket array preserved, so vf.h's model
 * is renamed out of the way and a full-copy model of the ISO C behaviour is supplied instead
 * (CBMC mode only; the native build uses glibc).  Groups run with --no-malloc-may-fail.
 *
 * The container-of casts of hash.c are normalised in the scratch copy (vflib/prep.py).
 */
#ifndef VF_NATIVE
#define realloc vf_window_realloc_unused
#endif
#include "vf.h"
#ifndef VF_NATIVE
#undef realloc
#endif
#include <stdlib.h>
#include "cstl/hash.h"

#ifndef VF_NATIVE
void * realloc(void * ptr, size_t size)
{
    struct cstl_hash_bucket * res;
    if (ptr == NULL) {
        return malloc(size);
    }
    if (size == 0) {
        free(ptr);
        return NULL;
    }
    res = malloc(size);
    if (res != NULL) {
        /* the only realloc'ed objects in this translation unit are bucket arrays */
        const size_t old = __CPROVER_OBJECT_SIZE(ptr);
        const size_t n = (old < size ? old : size) / sizeof(*res);
        size_t i;
        for (i = 0; i < n; i++) {
            res[i] = ((const struct cstl_hash_bucket *)ptr)[i];
        }
        free(ptr);
    }
    return res;
}
#endif

#include "hash.c"

/* CBMC's built-in pointer / bounds / arithmetic checks stay enabled in everything above (the
 * library code under test and the realloc model).  They are switched off for the specification
 * code below, which accounts for nearly all symbolic-execution steps (measured: 27 s -> 5 s for
 * two scenarios): the checkers identify a node or element by comparing its address with the
 * pool addresses BEFORE they dereference it, so a stray pointer produced by the library shows up
 * as a failed VF_ASSERT ("every chain node is an inserted element") instead. */
#ifndef VF_NATIVE
#pragma CPROVER check push
#pragma CPROVER check disable "pointer"
#pragma CPROVER check disable "pointer-primitive"
#pragma CPROVER check disable "pointer-overflow"
#pragma CPROVER check disable "bounds"
#pragma CPROVER check disable "signed-overflow"
#pragma CPROVER check disable "conversion"
#pragma CPROVER check disable "div-by-zero"
#pragma CPROVER check disable "undefined-shift"
#endif

/* ------------------------------------------------------------------ pool, model, hash functions */
struct vf_el { int id; struct cstl_hash_node hn; int poisoned; };
#define VF_POOL 6
static struct vf_el vf_pool[VF_POOL];
#define NODE(i)   (&vf_pool[i].hn)
#define ELEM(i)   ((void *)&vf_pool[i])
#define VF_MAXB   4                                        /* largest bucket count used */
#define VF_GARBAGE ((struct cstl_hash_node *)1)            /* what a released element's link holds */

struct vf_model { int live[VF_POOL]; size_t key[VF_POOL]; };

static size_t h_half(size_t k, size_t m) { return (k / 2) % m; }
static size_t h_zero(size_t k, size_t m) { (void)k; (void)m; return 0; }
static cstl_hash_func_t * vf_fn(int f) { return f == 0 ? cstl_hash_div : (f == 1 ? h_half : h_zero); }

static int vf_index_of(const void * e)
{
    int i, idx = -1;
    for (i = 0; i < VF_POOL; i++) {
        if (e == ELEM(i)) idx = i;
    }
    return idx;
}
static int vf_node_index(const struct cstl_hash_node * n)
{
    int i, idx = -1;
    for (i = 0; i < VF_POOL; i++) {
        if (n == NODE(i)) idx = i;
    }
    return idx;
}
static int vf_nlive(const struct vf_model * m)
{
    int i, n = 0;
    for (i = 0; i < VF_POOL; i++) n += m->live[i] ? 1 : 0;
    return n;
}
static void vf_reset(struct cstl_hash * h, struct vf_model * m)
{
    int i;
    for (i = 0; i < VF_POOL; i++) {
        vf_pool[i].id = i; vf_pool[i].poisoned = 0;
        vf_pool[i].hn.key = 77; vf_pool[i].hn.next = VF_GARBAGE;
        m->live[i] = 0; m->key[i] = 0;
    }
    cstl_hash_init(h, offsetof(struct vf_el, hn));
}

/* ------------------------------------------------------------------ C19 monitor around keyed operations */
#define H_PENDING(h) ((h)->bucket.rh.hash != NULL)
static struct { int pending; size_t clean, count, rh_count; cstl_hash_func_t * hash, * rh_hash; int dirty[VF_MAXB]; } vf_pre;
static int vf_pend_ops;          /* keyed operations since the last accepted resize request */
static int vf_max_moved;         /* most buckets relocated by one keyed operation (reach goal) */
static int vf_completed_by_op;   /* some keyed operation completed a rehash (reach goal) */

static void vf_k_pre(const struct cstl_hash * h)
{
    size_t b;
    vf_pre.pending = H_PENDING(h);
    vf_pre.clean = h->bucket.rh.clean; vf_pre.count = h->bucket.count; vf_pre.rh_count = h->bucket.rh.count;
    vf_pre.hash = h->bucket.hash; vf_pre.rh_hash = h->bucket.rh.hash;
    VF_ASSERT(h->bucket.count >= 1 && h->bucket.count <= VF_MAXB, "keyed operation: the table has been resized (1..4 buckets in these scopes)");
    for (b = 0; b < VF_MAXB; b++) {
        vf_pre.dirty[b] = vf_pre.pending && b < vf_pre.count && h->bucket.at[b].cst != h->bucket.cst;
    }
}
static void vf_k_post(const struct cstl_hash * h)
{
    size_t b;
    int moved = 0;
    if (!vf_pre.pending) {
        VF_ASSERT(!H_PENDING(h) && h->bucket.count == vf_pre.count && h->bucket.hash == vf_pre.hash,
                  "keyed operation with no rehash pending leaves the geometry alone");
        return;
    }
    for (b = 0; b < VF_MAXB; b++) {
        if (vf_pre.dirty[b] && h->bucket.at[b].cst == h->bucket.cst) moved++;
    }
    vf_pend_ops++;
    if (moved > vf_max_moved) vf_max_moved = moved;
    VF_ASSERT(moved <= 3, "C19: a keyed operation relocates the contents of at most three buckets");
    VF_ASSERT(!H_PENDING(h) || h->bucket.rh.clean >= vf_pre.clean + 1, "C19: a keyed operation advances the sweep by at least one bucket or completes the rehash");
    VF_ASSERT(!H_PENDING(h) || (size_t)vf_pend_ops < vf_pre.count, "C19: the rehash is complete after no more keyed operations than there were buckets");
    if (H_PENDING(h)) {
        VF_ASSERT(h->bucket.count == vf_pre.count && h->bucket.hash == vf_pre.hash && h->bucket.rh.count == vf_pre.rh_count && h->bucket.rh.hash == vf_pre.rh_hash,
                  "keyed operation: both geometries stay as they are while the rehash is pending");
    } else {
        vf_completed_by_op = 1;
        VF_ASSERT(h->bucket.count == vf_pre.rh_count && h->bucket.hash == vf_pre.rh_hash, "keyed operation: completion installs the pending geometry");
        for (b = 0; b < VF_MAXB; b++) {
            VF_ASSERT(!vf_pre.dirty[b] || h->bucket.at[b].cst == h->bucket.cst, "keyed operation: no dirty bucket is left behind when the rehash completes");
        }
    }
}

static void m_insert(struct cstl_hash * h, struct vf_model * m, int i, size_t k)
{
    vf_pool[i].poisoned = 0;
    vf_k_pre(h);
    cstl_hash_insert(h, k, ELEM(i));
    vf_k_post(h);
    m->live[i] = 1; m->key[i] = k;
}
/* erase of a member or (no-op) of a non-member whose node carries a key */
static void m_erase(struct cstl_hash * h, struct vf_model * m, int i)
{
    vf_k_pre(h);
    cstl_hash_erase(h, ELEM(i));
    vf_k_post(h);
    m->live[i] = 0;
}
static void * m_find(struct cstl_hash * h, size_t k, cstl_const_visit_func_t * v, void * p)
{
    void * r;
    vf_k_pre(h);
    r = cstl_hash_find(h, k, v, p);
    vf_k_post(h);
    return r;
}
static size_t vf_req_n;
static void m_resize(struct cstl_hash * h, size_t n, int f)
{
    cstl_hash_resize(h, n, vf_fn(f));
    vf_pend_ops = 0;
    vf_req_n = n;
    /* allocation cannot fail in these groups: the request lands (effective geometry == request) */
    VF_ASSERT((H_PENDING(h) ? h->bucket.rh.count : h->bucket.count) == n, "resize: the effective bucket count is the requested one");
    VF_ASSERT((H_PENDING(h) ? h->bucket.rh.hash : h->bucket.hash) == vf_fn(f), "resize: the effective hash function is the requested one");
    VF_ASSERT(h->bucket.capacity >= n && h->bucket.capacity >= h->bucket.count, "resize: the bucket array holds both geometries");
}

/* ------------------------------------------------------------------ passive (white-box) checker */
static int vf_saw_new_bucket_node;   /* a node seen in a bucket added by a pending grow (reach goal) */
static int vf_saw_pending_shrink;
static void vf_check_struct(const struct cstl_hash * h, const struct vf_model * m)
{
    int seen[VF_POOL] = { 0, 0, 0, 0, 0, 0 };
    const int pending = H_PENDING(h);
    size_t span = h->bucket.count, b, total = 0;
    int i;
    if (pending && h->bucket.rh.count > span) span = h->bucket.rh.count;
    if (pending && h->bucket.rh.count < h->bucket.count) vf_saw_pending_shrink = 1;
    VF_ASSERT(span <= VF_MAXB && span <= h->bucket.capacity, "structure: every bucket in use lies inside the bucket array");
    VF_ASSERT(!pending || h->bucket.rh.clean <= h->bucket.count, "structure: the sweep position is inside the old geometry");
    for (b = 0; b < span; b++) {
        const struct cstl_hash_node * n = h->bucket.at[b].n;
        const int clean = h->bucket.at[b].cst == h->bucket.cst;
        int steps = 0;
        VF_ASSERT(!pending || b >= h->bucket.rh.clean || clean, "structure: buckets behind the sweep position are clean");
        VF_ASSERT(!pending || b < h->bucket.count || clean, "structure: buckets added by a pending grow are clean");
        while (n != NULL && steps < VF_POOL) {
            const int idx = vf_node_index(n);
            VF_ASSERT(idx >= 0, "structure: every chain node is an inserted element");
            if (idx < 0) break;
            VF_ASSERT(m->live[idx], "structure: no erased element is linked in a chain");
            VF_ASSERT(n->key == m->key[idx], "structure: the node carries the key it was inserted with");
            seen[idx]++;
            total++;
            if (!pending) {
                VF_ASSERT(h->bucket.hash(n->key, h->bucket.count) == b, "structure: no rehash pending, the node sits in the bucket named by the hash function");
            } else if (clean) {
                VF_ASSERT(h->bucket.rh.hash(n->key, h->bucket.rh.count) == b, "structure: a clean bucket holds only nodes placed by the pending geometry");
                if (b >= h->bucket.count) vf_saw_new_bucket_node = 1;
            } else {
                VF_ASSERT(h->bucket.hash(n->key, h->bucket.count) == b || h->bucket.rh.hash(n->key, h->bucket.rh.count) == b,
                          "structure: a dirty bucket holds nodes placed by the old or by the pending geometry");
            }
            n = n->next;
            steps++;
        }
        VF_ASSERT(n == NULL, "structure: chains are acyclic and end in NULL");
    }
    for (i = 0; i < VF_POOL; i++) {
        VF_ASSERT(seen[i] == (m->live[i] ? 1 : 0), "structure: every live element is linked in exactly one chain, no other element is linked");
    }
    VF_ASSERT(total == h->count, "structure: the element count equals the number of linked nodes");
    VF_ASSERT(cstl_hash_size(h) == (size_t)vf_nlive(m), "size: cstl_hash_size equals the number of live elements");
}

/* ------------------------------------------------------------------ active (black-box) checker */
static int vf_offers[VF_POOL], vf_offer_bad;
/* accepts exactly element *p (nothing if *p < 0); counts how often each element is offered */
static int vf_visit_is_id(const void * e, void * p)
{
    const int want = *(const int *)p;
    const int i = vf_index_of(e);
    if (i < 0) { vf_offer_bad++; return 0; }
    vf_offers[i]++;
    return i == want;
}
/* one find of key k with a visit function accepting exactly element `want` (none if want < 0) */
static void vf_find_check(struct cstl_hash * h, const struct vf_model * m, size_t k, int want)
{
    int i, w = want;
    void * r;
    for (i = 0; i < VF_POOL; i++) vf_offers[i] = 0;
    vf_offer_bad = 0;
    r = m_find(h, k, vf_visit_is_id, &w);
    VF_ASSERT(vf_offer_bad == 0, "find: only inserted elements are offered to the visit function");
    for (i = 0; i < VF_POOL; i++) {
        const int has = m->live[i] && m->key[i] == k;
        VF_ASSERT(vf_offers[i] <= 1, "find: an element is offered to the visit function at most once");
        VF_ASSERT(has || vf_offers[i] == 0, "find: an erased element or one with another key is never offered");
        if (want < 0) {
            VF_ASSERT(!has || vf_offers[i] == 1, "find: every live element with the key is offered when none is accepted");
        }
    }
    if (want < 0) {
        VF_ASSERT(r == NULL, "find: NULL when the visit function accepts nothing");
    } else {
        VF_ASSERT(r == ELEM(want), "find: the live element accepted by the visit function is returned");
        VF_ASSERT(vf_offers[want] == 1, "find: the accepted element was offered exactly once");
    }
}
/* find with no visit function: any live element with the key, NULL iff there is none */
static void vf_find_any_check(struct cstl_hash * h, const struct vf_model * m, size_t k)
{
    int i, any = 0, ok = 0;
    void * const r = m_find(h, k, NULL, NULL);
    for (i = 0; i < VF_POOL; i++) {
        if (m->live[i] && m->key[i] == k) {
            any = 1;
            if (r == ELEM(i)) ok = 1;
        }
    }
    VF_ASSERT((r == NULL) == !any, "find without visit function: NULL iff no live element has the key");
    VF_ASSERT(r == NULL || ok, "find without visit function: the result is a live element with the key");
}
static void vf_check_active(struct cstl_hash * h, const struct vf_model * m, int rot)
{
    int j;
    size_t k;
    VF_ASSERT(cstl_hash_size(h) == (size_t)vf_nlive(m), "size: cstl_hash_size equals the number of live elements");
    for (j = 0; j < VF_POOL; j++) {
        const int i = (j + rot) % VF_POOL;
        if (m->live[i]) {
            vf_find_check(h, m, m->key[i], i);
        }
    }
    for (k = 0; k < 4; k++) {
        vf_find_check(h, m, (k + (size_t)rot) % 4, -1);
        vf_find_any_check(h, m, (k + (size_t)rot) % 4);
    }
    VF_ASSERT(cstl_hash_size(h) == (size_t)vf_nlive(m), "size: unchanged by lookups");
}
static void vf_check(struct cstl_hash * h, const struct vf_model * m, int rot)
{
    vf_check_struct(h, m);
    vf_check_active(h, m, rot);
    vf_check_struct(h, m);
}

/* ------------------------------------------------------------------ B1: insert / find / erase, no rehash pending */
#if defined(VF_B) && VF_B == 1
#ifndef VF_FSEL
#define VF_FSEL 0
#endif
struct vf_pat { int n; size_t k[4]; };
static const struct vf_pat vf_pats[] = {
    { 0, { 0, 0, 0, 0 } }, { 1, { 2, 0, 0, 0 } }, { 2, { 1, 1, 0, 0 } }, { 3, { 1, 1, 2, 0 } },
    { 3, { 0, 1, 2, 0 } }, { 4, { 0, 1, 2, 3 } }, { 4, { 3, 1, 1, 0 } },
};
#define VF_NPATS ((int)(sizeof(vf_pats) / sizeof(vf_pats[0])))
#ifndef VF_MLO
#define VF_MLO 1
#define VF_MHI 3
#endif
#ifndef VF_PLO
#define VF_PLO 0
#define VF_PHI (VF_NPATS - 1)
#endif
void h_b_basic(void)
{
    size_t mm;
    int pi, j;
    for (mm = VF_MLO; mm <= VF_MHI; mm++) {
        for (pi = VF_PLO; pi <= VF_PHI; pi++) {
            const struct vf_pat * const pt = &vf_pats[pi];
            struct cstl_hash h; struct vf_model m;
            vf_reset(&h, &m);
            VF_ASSERT(cstl_hash_size(&h) == 0, "a freshly initialised table is empty");
            m_resize(&h, mm, VF_FSEL);
            VF_ASSERT(!H_PENDING(&h) && h.bucket.count == mm, "first resize lands at once");
            vf_check(&h, &m, 0);
            for (j = 0; j < pt->n; j++) {
                m_insert(&h, &m, j, pt->k[j]);
                vf_check(&h, &m, j);
            }
            if (pt->n > 0) {
                /* erase of an object that is not in the table: same key as a member, then another key */
                vf_pool[5].hn.key = pt->k[0]; vf_pool[5].hn.next = VF_GARBAGE;
                m_erase(&h, &m, 5);
                vf_check(&h, &m, 1);
                vf_pool[5].hn.key = (pt->k[0] + 1) % 4;
                m_erase(&h, &m, 5);
                vf_check_struct(&h, &m);
            }
            if (pt->n >= 2) {
                /* element 1 is neither the first nor (for n >= 3) the last inserted: inside a shared chain */
                m_erase(&h, &m, 1);
                vf_check(&h, &m, 2);
                m_erase(&h, &m, 1);                          /* erased twice: the second is a no-op */
                vf_check_struct(&h, &m);
                m_insert(&h, &m, 1, pt->k[1]);               /* back in, now at the head of its chain */
                vf_check(&h, &m, 3);
            }
            for (j = 0; j < pt->n; j++) {
                m_erase(&h, &m, j);
                vf_check(&h, &m, j + 1);
            }
            VF_ASSERT(cstl_hash_size(&h) == 0, "all erased: the table is empty");
            if (pt->n > 0) {
                m_erase(&h, &m, 0);                          /* no-op on the empty table */
                vf_check_struct(&h, &m);
                m_insert(&h, &m, 0, pt->k[0]);
                m_insert(&h, &m, 4, pt->k[0]);               /* a second element under the same key */
                vf_check(&h, &m, 4);
            }
            cstl_hash_clear(&h, NULL);
            VF_REACH(mm == VF_MHI && pi == VF_PHI, "largest table and longest key pattern exercised");
        }
    }
    VF_END();
}
#endif

/* ------------------------------------------------------------------ scenario builder shared by B2 / B3 */
/* four elements under keys 0,1,3,1 in a table (m1,f1), a resize request (m2,f2), then the first
 * s of four keyed operations; element 4 (key 2) and element 5 (spare) are not inserted */
static const size_t vf_keys4[4] = { 0, 1, 3, 1 };
static void vf_keyed_op(struct cstl_hash * h, struct vf_model * m, int j)
{
    switch (j) {
    case 0: vf_find_any_check(h, m, 1); break;
    case 1: m_insert(h, m, 4, 2); break;
    case 2: m_erase(h, m, 1); break;
    default: vf_find_check(h, m, 3, -1); break;
    }
    vf_check_struct(h, m);
}
static void vf_build(struct cstl_hash * h, struct vf_model * m, size_t m1, int f1, size_t m2, int f2, int s)
{
    int j;
    vf_reset(h, m);
    m_resize(h, m1, f1);
    for (j = 0; j < 4; j++) {
        m_insert(h, m, j, vf_keys4[j]);
    }
    vf_check_struct(h, m);
    m_resize(h, m2, f2);
    VF_ASSERT(H_PENDING(h) == (m1 != m2 || f1 != f2), "resize: a request that differs from the current geometry starts a rehash, an equal one does nothing");
    VF_ASSERT(!H_PENDING(h) || (h->bucket.rh.clean == 0 && h->bucket.count == m1), "resize: the sweep starts at bucket 0 of the old geometry");
    vf_check_struct(h, m);
    for (j = 0; j < s; j++) {
        vf_keyed_op(h, m, j);
    }
}
static void vf_load_check(const struct cstl_hash * h, const struct vf_model * m)
{
    VF_ASSERT(cstl_hash_load(h) == (float)vf_nlive(m) / (float)vf_req_n, "load: size divided by the most recently requested bucket count");
}

/* ------------------------------------------------------------------ B2: everything while a rehash is pending */
#if defined(VF_B) && VF_B == 2
#ifndef VF_M1
#define VF_M1 4
#endif
#ifndef VF_VAR_LO
#define VF_VAR_LO 0
#define VF_VAR_HI 5
#endif
#ifndef VF_SMAX
#define VF_SMAX 4
#endif
/* variants: 0 keep going with keyed operations only, 1 a second resize to a third geometry,
 * 2 resize back to the original geometry, 3 forced rehash, 4 shrink-to-fit, 5 swap */
void h_b_rehash(void)
{
    const size_t m1 = VF_M1;
    size_t m2;
    int f1, f2, s, v;
    for (f1 = 0; f1 < 2; f1++) {
        for (m2 = 1; m2 <= 4; m2++) {
            for (f2 = 0; f2 < 2; f2++) {
                for (s = 0; s <= VF_SMAX; s++) {
                    for (v = VF_VAR_LO; v <= VF_VAR_HI; v++) {
                        struct cstl_hash h, h2; struct vf_model m, mb;
                        struct cstl_hash * t = &h;
                        size_t exp_n = m2; int exp_f = f2;
                        vf_build(&h, &m, m1, f1, m2, f2, s);
                        if (v == 1) {
                            exp_n = (m2 % 4) + 1; exp_f = 1 - f2;
                            m_resize(&h, exp_n, exp_f);
                            VF_ASSERT(H_PENDING(&h) && h.bucket.count == m2 && h.bucket.hash == vf_fn(f2),
                                      "second resize: the earlier request is completed first, the new one is pending");
                        } else if (v == 2) {
                            exp_n = m1; exp_f = f1;
                            m_resize(&h, exp_n, exp_f);
                        } else if (v == 3) {
                            cstl_hash_rehash(&h);
                            VF_ASSERT(!H_PENDING(&h), "forced rehash: nothing is pending afterwards");
                        } else if (v == 4) {
                            cstl_hash_shrink_to_fit(&h);
                            VF_ASSERT((H_PENDING(&h) ? h.bucket.rh.count : h.bucket.count) == m2 && (H_PENDING(&h) ? h.bucket.rh.hash : h.bucket.hash) == vf_fn(f2),
                                      "shrink-to-fit: the effective geometry is unchanged");
                            VF_ASSERT(h.bucket.capacity == m2 && h.bucket.capacity >= h.bucket.count, "shrink-to-fit: the bucket array holds exactly the effective geometry");
                        } else if (v == 5) {
                            /* a second table holding the spare element; the two tables trade places */
                            int i;
                            for (i = 0; i < VF_POOL; i++) { mb.live[i] = 0; mb.key[i] = 0; }
                            cstl_hash_init(&h2, offsetof(struct vf_el, hn));
                            cstl_hash_resize(&h2, 2, cstl_hash_div);
                            cstl_hash_insert(&h2, 0, ELEM(5));
                            mb.live[5] = 1; mb.key[5] = 0;
                            vf_check_struct(&h2, &mb);
                            cstl_hash_swap(&h, &h2);
                            t = &h2;
                            vf_check_struct(&h, &mb);
                        }
                        vf_check_struct(t, &m);
                        vf_check(t, &m, s + v);
                        if (v == 5) {
                            vf_check(&h, &mb, s);
                            VF_ASSERT(h.bucket.count == 2 && h.bucket.hash == cstl_hash_div, "swap: the other table arrived with its geometry");
                            cstl_hash_clear(&h, NULL);
                        }
                        VF_ASSERT(!H_PENDING(t) && t->bucket.count == exp_n && t->bucket.hash == vf_fn(exp_f), "the most recently requested geometry is installed once the rehash is complete");
                        vf_load_check(t, &m);
                        cstl_hash_clear(t, NULL);
                    }
                }
            }
        }
    }
    VF_END();
}
#endif

#ifdef VF_NATIVE
struct vf_harness { const char * name; void (*fn)(void); };
struct vf_harness vf_harnesses[] = {
#if defined(VF_B) && VF_B == 1
    { "h_b_basic", h_b_basic },
#elif defined(VF_B) && VF_B == 2
    { "h_b_rehash", h_b_rehash },
#endif
    { NULL, NULL }
};
#endif
