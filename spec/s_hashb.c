/* Bounded element-level checks for /repo/src/hash.c (C03, C04, C19 part).
 *
 * spec/s_hash.c holds the array-level (flat) DFCC contracts of the hash table; this file is the
 * chain-level counterpart: the real library code is executed on CONCRETE small tables (a static
 * pool of 6 elements, keys from {0,1,2,3}, 1..4 buckets, three concrete hash functions) and after
 * every operation compared with a reference model kept in plain arrays (live[], key[]).
 *
 * Two checkers:
 *   passive (vf_check_struct)  white-box walk of the bucket chains, does not touch the table:
 *                              every live element sits in exactly one chain among the buckets
 *                              [0, span), chains are acyclic, node keys equal the model's, every
 *                              node sits in the bucket its (old or pending) hash function names,
 *                              h.count == number of nodes == number of live elements.
 *   active  (vf_check_active)  black-box through cstl_hash_size / cstl_hash_find: every live
 *                              element is found by key with a visit function accepting exactly it,
 *                              a visit function accepting nothing is offered exactly the live
 *                              elements with the key (each once) and find returns NULL, a NULL
 *                              visit function returns some live element with the key (NULL iff
 *                              there is none), no non-live element is ever offered.
 *                              The finds are keyed operations and advance a pending rehash (that
 *                              is intended); to see the table while the rehash is still pending
 *                              after s further operations the scenarios are replayed from scratch
 *                              for every prefix length s and the active checker is run at the end
 *                              of each prefix, starting with a different element each time.
 * Every keyed operation (insert / find / erase, including those issued by the active checker)
 * goes through a monitor that checks the C19 work bound white-box: at most three buckets change
 * their stamp from dirty to clean, rh.clean advances by >= 1 or the rehash completes, and a rehash
 * over `count` buckets is complete after `count` keyed operations.
 *
 * vf.h's realloc model keeps only a ghost window of the old contents (it serves the contract
 * groups); the concrete histories here need the whole bucket array preserved, so vf.h's model
 * is renamed out of the way and a full-copy model of the ISO C behaviour is supplied instead
 * (CBMC mode only; the native build uses glibc), likewise a struct-assignment model of the
 * memcpy() inside cstl_hash_swap().  Groups run with --no-malloc-may-fail.
 *
 * The container-of casts of hash.c are normalised in the scratch copy (vflib/prep.py).
 */
#ifndef VF_NATIVE
#define realloc vf_window_realloc_unused
#endif
#include "vf.h"
#ifndef VF_NATIVE
#undef realloc
#endif
#include <stdlib.h>
#include "cstl/hash.h"

#ifndef VF_NATIVE
void * realloc(void * ptr, size_t size)
{
    struct cstl_hash_bucket * res;
    if (ptr == NULL) {
        return malloc(size);
    }
    if (size == 0) {
        free(ptr);
        return NULL;
    }
    res = malloc(size);
    if (res != NULL) {
        /* the only realloc'ed objects in this translation unit are bucket arrays */
        const size_t old = __CPROVER_OBJECT_SIZE(ptr);
        const size_t n = (old < size ? old : size) / sizeof(*res);
        size_t i;
        for (i = 0; i < n; i++) {
            res[i] = ((const struct cstl_hash_bucket *)ptr)[i];
        }
        free(ptr);
    }
    return res;
}

/* cstl_hash_swap() exchanges two tables via a third with three memcpy()s of the whole struct
 * (cstl_swap in cstl/common.h), the only memcpy in this translation unit.  CBMC's built-in
 * byte-wise memcpy turns the table header into byte-update terms that no longer constant-fold
 * (measured: one swap scenario did not finish in 25 minutes); copying the same bytes as one
 * struct assignment is the same function on these arguments and keeps the run concrete. */
void * memcpy(void * dst, const void * src, size_t n)
{
    __CPROVER_assert(n == sizeof(struct cstl_hash), "memcpy model: only whole tables are copied in this translation unit");
    *(struct cstl_hash *)dst = *(const struct cstl_hash *)src;
    return dst;
}
#endif

#include "hash.c"

/* CBMC's built-in pointer / bounds / arithmetic checks stay enabled in everything above (the
 * library code under test and the realloc / memcpy models).  They are switched off for the specification
 * code below, which accounts for nearly all symbolic-execution steps (measured: 27 s -> 5 s for
 * two scenarios): the checkers identify a node or element by comparing its address with the
 * pool addresses BEFORE they dereference it, so a stray pointer produced by the library shows up
 * as a failed VF_ASSERT ("every chain node is an inserted element") instead. */
#ifndef VF_NATIVE
#pragma CPROVER check push
#pragma CPROVER check disable "pointer"
#pragma CPROVER check disable "pointer-primitive"
#pragma CPROVER check disable "pointer-overflow"
#pragma CPROVER check disable "bounds"
#pragma CPROVER check disable "signed-overflow"
#pragma CPROVER check disable "conversion"
#pragma CPROVER check disable "div-by-zero"
#pragma CPROVER check disable "undefined-shift"
#endif

/* ------------------------------------------------------------------ pool, model, hash functions */
struct vf_el { int id; struct cstl_hash_node hn; int poisoned; };
#define VF_POOL 6
static struct vf_el vf_pool[VF_POOL];
#define NODE(i)   (&vf_pool[i].hn)
#define ELEM(i)   ((void *)&vf_pool[i])
#ifndef VF_MAXB
#define VF_MAXB   4                                        /* largest bucket count used */
#endif
#define VF_GARBAGE ((struct cstl_hash_node *)1)            /* what a released element's link holds */

struct vf_model { int live[VF_POOL]; size_t key[VF_POOL]; };

static size_t h_half(size_t k, size_t m) { return (k / 2) % m; }
static size_t h_zero(size_t k, size_t m) { (void)k; (void)m; return 0; }
static cstl_hash_func_t * vf_fn(int f) { return f == 0 ? cstl_hash_div : (f == 1 ? h_half : h_zero); }

/* which pool element / node is this?  -1 for anything else (a stray pointer is never dereferenced) */
#ifdef VF_NATIVE
static int vf_index_of(const void * e)
{
    int i, idx = -1;
    for (i = 0; i < VF_POOL; i++) {
        if (e == ELEM(i)) idx = i;
    }
    return idx;
}
static int vf_node_index(const struct cstl_hash_node * n)
{
    int i, idx = -1;
    for (i = 0; i < VF_POOL; i++) {
        if (n == NODE(i)) idx = i;
    }
    return idx;
}
#else
/* the same by object / offset arithmetic (a sixth of the symbolic-execution steps of the loop) */
static int vf_index_of(const void * e)
{
    size_t off;
    if (e == NULL || !__CPROVER_same_object(e, vf_pool)) return -1;
    off = __CPROVER_POINTER_OFFSET(e);
    if (off % sizeof(struct vf_el) != 0 || off / sizeof(struct vf_el) >= VF_POOL) return -1;
    return (int)(off / sizeof(struct vf_el));
}
static int vf_node_index(const struct cstl_hash_node * n)
{
    size_t off;
    if (n == NULL || !__CPROVER_same_object(n, vf_pool)) return -1;
    off = __CPROVER_POINTER_OFFSET(n);
    if (off < offsetof(struct vf_el, hn) || (off - offsetof(struct vf_el, hn)) % sizeof(struct vf_el) != 0 || off / sizeof(struct vf_el) >= VF_POOL) return -1;
    return (int)(off / sizeof(struct vf_el));
}
#endif
static int vf_nlive(const struct vf_model * m)
{
    int i, n = 0;
    for (i = 0; i < VF_POOL; i++) n += m->live[i] ? 1 : 0;
    return n;
}
static void vf_reset(struct cstl_hash * h, struct vf_model * m)
{
    int i;
#ifndef VF_NATIVE
    /* CBMC records released / out-of-scope objects in two ghost pointers whose value sets grow
     * with every scenario and make each pointer check of a later scenario more expensive
     * (quadratic overall, measured).  A new scenario starts from a fresh table and a reset pool:
     * nothing of an earlier scenario is reachable, so the records start afresh as well. */
    __CPROVER_deallocated = NULL;
    __CPROVER_dead_object = NULL;
#endif
    for (i = 0; i < VF_POOL; i++) {
        vf_pool[i].id = i; vf_pool[i].poisoned = 0;
        vf_pool[i].hn.key = 77; vf_pool[i].hn.next = VF_GARBAGE;
        m->live[i] = 0; m->key[i] = 0;
    }
    cstl_hash_init(h, offsetof(struct vf_el, hn));
}

/* ------------------------------------------------------------------ C19 monitor around keyed operations */
#define H_PENDING(h) ((h)->bucket.rh.hash != NULL)
static struct { int pending; size_t clean, count, rh_count; cstl_hash_func_t * hash, * rh_hash; int dirty[VF_MAXB]; } vf_pre;
static int vf_pend_ops;          /* keyed operations since the last accepted resize request */
static int vf_max_moved;         /* most buckets relocated by one keyed operation (reach goal) */
static int vf_completed_by_op;   /* some keyed operation completed a rehash (reach goal) */

static void vf_k_pre(const struct cstl_hash * h)
{
    size_t b;
    vf_pre.pending = H_PENDING(h);
    vf_pre.clean = h->bucket.rh.clean; vf_pre.count = h->bucket.count; vf_pre.rh_count = h->bucket.rh.count;
    vf_pre.hash = h->bucket.hash; vf_pre.rh_hash = h->bucket.rh.hash;
    VF_ASSERT(h->bucket.count >= 1 && h->bucket.count <= VF_MAXB, "keyed operation: the table has been resized (1..VF_MAXB buckets in these scopes)");
    if (!vf_pre.pending) return;
    for (b = 0; b < VF_MAXB; b++) {
        vf_pre.dirty[b] = b < vf_pre.count && h->bucket.at[b].cst != h->bucket.cst;
    }
}
static void vf_k_post(const struct cstl_hash * h)
{
    size_t b;
    int moved = 0;
    if (!vf_pre.pending) {
        VF_ASSERT(!H_PENDING(h) && h->bucket.count == vf_pre.count && h->bucket.hash == vf_pre.hash,
                  "keyed operation with no rehash pending leaves the geometry alone");
        return;
    }
    for (b = 0; b < VF_MAXB; b++) {
        if (vf_pre.dirty[b] && h->bucket.at[b].cst == h->bucket.cst) moved++;
    }
    vf_pend_ops++;
    if (moved > vf_max_moved) vf_max_moved = moved;
    VF_ASSERT(moved <= 3, "C19: a keyed operation relocates the contents of at most three buckets");
    VF_ASSERT(!H_PENDING(h) || h->bucket.rh.clean >= vf_pre.clean + 1, "C19: a keyed operation advances the sweep by at least one bucket or completes the rehash");
    VF_ASSERT(!H_PENDING(h) || (size_t)vf_pend_ops < vf_pre.count, "C19: the rehash is complete after no more keyed operations than there were buckets");
    if (H_PENDING(h)) {
        VF_ASSERT(h->bucket.count == vf_pre.count && h->bucket.hash == vf_pre.hash && h->bucket.rh.count == vf_pre.rh_count && h->bucket.rh.hash == vf_pre.rh_hash,
                  "keyed operation: both geometries stay as they are while the rehash is pending");
    } else {
        vf_completed_by_op = 1;
        VF_ASSERT(h->bucket.count == vf_pre.rh_count && h->bucket.hash == vf_pre.rh_hash, "keyed operation: completion installs the pending geometry");
        for (b = 0; b < VF_MAXB; b++) {
            VF_ASSERT(!vf_pre.dirty[b] || h->bucket.at[b].cst == h->bucket.cst, "keyed operation: no dirty bucket is left behind when the rehash completes");
        }
    }
}

static void m_insert(struct cstl_hash * h, struct vf_model * m, int i, size_t k)
{
    vf_pool[i].poisoned = 0;
    vf_k_pre(h);
    cstl_hash_insert(h, k, ELEM(i));
    vf_k_post(h);
    m->live[i] = 1; m->key[i] = k;
}
/* erase of a member or (no-op) of a non-member whose node carries a key */
static void m_erase(struct cstl_hash * h, struct vf_model * m, int i)
{
    vf_k_pre(h);
    cstl_hash_erase(h, ELEM(i));
    vf_k_post(h);
    m->live[i] = 0;
}
static void * m_find(struct cstl_hash * h, size_t k, cstl_const_visit_func_t * v, void * p)
{
    void * r;
    vf_k_pre(h);
    r = cstl_hash_find(h, k, v, p);
    vf_k_post(h);
    return r;
}
static size_t vf_req_n;
static void m_resize(struct cstl_hash * h, size_t n, int f)
{
    cstl_hash_resize(h, n, vf_fn(f));
    vf_pend_ops = 0;
    vf_req_n = n;
    /* allocation cannot fail in these groups: the request lands (effective geometry == request) */
    VF_ASSERT((H_PENDING(h) ? h->bucket.rh.count : h->bucket.count) == n, "resize: the effective bucket count is the requested one");
    VF_ASSERT((H_PENDING(h) ? h->bucket.rh.hash : h->bucket.hash) == vf_fn(f), "resize: the effective hash function is the requested one");
    VF_ASSERT(h->bucket.capacity >= n && h->bucket.capacity >= h->bucket.count, "resize: the bucket array holds both geometries");
}

/* ------------------------------------------------------------------ passive (white-box) checker */
static int vf_saw_new_bucket_node;   /* a node seen in a bucket added by a pending grow (reach goal) */
static int vf_saw_pending_shrink;
static void vf_check_struct(const struct cstl_hash * h, const struct vf_model * m)
{
    int seen[VF_POOL] = { 0, 0, 0, 0, 0, 0 };
    const int pending = H_PENDING(h);
    size_t span = h->bucket.count, b, total = 0;
    int i;
    if (pending && h->bucket.rh.count > span) span = h->bucket.rh.count;
    if (pending && h->bucket.rh.count < h->bucket.count) vf_saw_pending_shrink = 1;
    VF_ASSERT(span <= VF_MAXB && span <= h->bucket.capacity, "structure: every bucket in use lies inside the bucket array");
    VF_ASSERT(!pending || h->bucket.rh.clean <= h->bucket.count, "structure: the sweep position is inside the old geometry");
    for (b = 0; b < span; b++) {
        const struct cstl_hash_node * n = h->bucket.at[b].n;
        const int clean = h->bucket.at[b].cst == h->bucket.cst;
        int steps = 0;
        VF_ASSERT(!pending || b >= h->bucket.rh.clean || clean, "structure: buckets behind the sweep position are clean");
        VF_ASSERT(!pending || b < h->bucket.count || clean, "structure: buckets added by a pending grow are clean");
        while (n != NULL && steps < VF_POOL) {
            const int idx = vf_node_index(n);
            VF_ASSERT(idx >= 0, "structure: every chain node is an inserted element");
            if (idx < 0) break;
            VF_ASSERT(m->live[idx], "structure: no erased element is linked in a chain");
            VF_ASSERT(n->key == m->key[idx], "structure: the node carries the key it was inserted with");
            seen[idx]++;
            total++;
            if (!pending) {
                VF_ASSERT(h->bucket.hash(n->key, h->bucket.count) == b, "structure: no rehash pending, the node sits in the bucket named by the hash function");
            } else if (clean) {
                VF_ASSERT(h->bucket.rh.hash(n->key, h->bucket.rh.count) == b, "structure: a clean bucket holds only nodes placed by the pending geometry");
                if (b >= h->bucket.count) vf_saw_new_bucket_node = 1;
            } else {
                VF_ASSERT(h->bucket.hash(n->key, h->bucket.count) == b || h->bucket.rh.hash(n->key, h->bucket.rh.count) == b,
                          "structure: a dirty bucket holds nodes placed by the old or by the pending geometry");
            }
            n = n->next;
            steps++;
        }
        VF_ASSERT(n == NULL, "structure: chains are acyclic and end in NULL");
    }
    for (i = 0; i < VF_POOL; i++) {
        VF_ASSERT(seen[i] == (m->live[i] ? 1 : 0), "structure: every live element is linked in exactly one chain, no other element is linked");
    }
    VF_ASSERT(total == h->count, "structure: the element count equals the number of linked nodes");
    VF_ASSERT(cstl_hash_size(h) == (size_t)vf_nlive(m), "size: cstl_hash_size equals the number of live elements");
}

/* ------------------------------------------------------------------ active (black-box) checker */
static int vf_offers[VF_POOL], vf_offer_bad;
/* accepts exactly element *p (nothing if *p < 0); counts how often each element is offered */
static int vf_visit_is_id(const void * e, void * p)
{
    const int want = *(const int *)p;
    const int i = vf_index_of(e);
    if (i < 0) { vf_offer_bad++; return 0; }
    vf_offers[i]++;
    return i == want;
}
/* one find of key k with a visit function accepting exactly element `want` (none if want < 0) */
static void vf_find_check(struct cstl_hash * h, const struct vf_model * m, size_t k, int want)
{
    int i, w = want, offered_want = 0;
    void * r;
    /* the offer counters are zero here: initially, and reset below after every use */
    r = m_find(h, k, vf_visit_is_id, &w);
    VF_ASSERT(vf_offer_bad == 0, "find: only inserted elements are offered to the visit function");
    vf_offer_bad = 0;
    for (i = 0; i < VF_POOL; i++) {
        const int has = m->live[i] && m->key[i] == k;
        VF_ASSERT(vf_offers[i] <= 1, "find: an element is offered to the visit function at most once");
        VF_ASSERT(has || vf_offers[i] == 0, "find: an erased element or one with another key is never offered");
        if (want < 0) {
            VF_ASSERT(!has || vf_offers[i] == 1, "find: every live element with the key is offered when none is accepted");
        }
        if (i == want) offered_want = vf_offers[i];
        vf_offers[i] = 0;
    }
    if (want < 0) {
        VF_ASSERT(r == NULL, "find: NULL when the visit function accepts nothing");
    } else {
        VF_ASSERT(r == ELEM(want), "find: the live element accepted by the visit function is returned");
        VF_ASSERT(offered_want == 1, "find: the accepted element was offered exactly once");
    }
}
/* find with no visit function: any live element with the key, NULL iff there is none */
static void vf_find_any_check(struct cstl_hash * h, const struct vf_model * m, size_t k)
{
    int i, any = 0, ok = 0;
    void * const r = m_find(h, k, NULL, NULL);
    for (i = 0; i < VF_POOL; i++) {
        if (m->live[i] && m->key[i] == k) {
            any = 1;
            if (r == ELEM(i)) ok = 1;
        }
    }
    VF_ASSERT((r == NULL) == !any, "find without visit function: NULL iff no live element has the key");
    VF_ASSERT(r == NULL || ok, "find without visit function: the result is a live element with the key");
}
static void vf_check_active(struct cstl_hash * h, const struct vf_model * m, int rot)
{
    int j;
    size_t k;
    VF_ASSERT(cstl_hash_size(h) == (size_t)vf_nlive(m), "size: cstl_hash_size equals the number of live elements");
    for (j = 0; j < VF_POOL; j++) {
        const int i = (j + rot) % VF_POOL;
        if (m->live[i]) {
            vf_find_check(h, m, m->key[i], i);
        }
    }
    for (k = 0; k < 4; k++) {
        vf_find_check(h, m, (k + (size_t)rot) % 4, -1);
        vf_find_any_check(h, m, (k + (size_t)rot) % 4);
    }
    VF_ASSERT(cstl_hash_size(h) == (size_t)vf_nlive(m), "size: unchanged by lookups");
}
static void vf_check(struct cstl_hash * h, const struct vf_model * m, int rot)
{
    vf_check_struct(h, m);
    vf_check_active(h, m, rot);
    vf_check_struct(h, m);
}

/* ------------------------------------------------------------------ B1: insert / find / erase, no rehash pending */
#if defined(VF_B) && VF_B == 1
#ifndef VF_FSEL
#define VF_FSEL 0
#endif
struct vf_pat { int n; size_t k[4]; };
static const struct vf_pat vf_pats[] = {
    { 0, { 0, 0, 0, 0 } }, { 1, { 2, 0, 0, 0 } }, { 2, { 1, 1, 0, 0 } }, { 3, { 1, 1, 2, 0 } },
    { 3, { 0, 1, 2, 0 } }, { 4, { 0, 1, 2, 3 } }, { 4, { 3, 1, 1, 0 } },
};
#define VF_NPATS ((int)(sizeof(vf_pats) / sizeof(vf_pats[0])))
#ifndef VF_MLO
#define VF_MLO 1
#define VF_MHI 3
#endif
#ifndef VF_PLO
#define VF_PLO 0
#define VF_PHI (VF_NPATS - 1)
#endif
void h_b_basic(void)
{
    size_t mm;
    int pi, j;
    for (mm = VF_MLO; mm <= VF_MHI; mm++) {
        for (pi = VF_PLO; pi <= VF_PHI; pi++) {
            const struct vf_pat * const pt = &vf_pats[pi];
            struct cstl_hash h; struct vf_model m;
            vf_reset(&h, &m);
            VF_ASSERT(cstl_hash_size(&h) == 0, "a freshly initialised table is empty");
            m_resize(&h, mm, VF_FSEL);
            VF_ASSERT(!H_PENDING(&h) && h.bucket.count == mm, "first resize lands at once");
            vf_check(&h, &m, 0);
            for (j = 0; j < pt->n; j++) {
                m_insert(&h, &m, j, pt->k[j]);
                vf_check(&h, &m, j);
            }
            if (pt->n > 0) {
                /* erase of an object that is not in the table: same key as a member, then another key */
                vf_pool[5].hn.key = pt->k[0]; vf_pool[5].hn.next = VF_GARBAGE;
                m_erase(&h, &m, 5);
                vf_check(&h, &m, 1);
                vf_pool[5].hn.key = (pt->k[0] + 1) % 4;
                m_erase(&h, &m, 5);
                vf_check_struct(&h, &m);
            }
            if (pt->n >= 2) {
                /* element 1 is neither the first nor (for n >= 3) the last inserted: inside a shared chain */
                m_erase(&h, &m, 1);
                vf_check(&h, &m, 2);
                m_erase(&h, &m, 1);                          /* erased twice: the second is a no-op */
                vf_check_struct(&h, &m);
                m_insert(&h, &m, 1, pt->k[1]);               /* back in, now at the head of its chain */
                vf_check(&h, &m, 3);
            }
            for (j = 0; j < pt->n; j++) {
                m_erase(&h, &m, j);
                vf_check(&h, &m, j + 1);
            }
            VF_ASSERT(cstl_hash_size(&h) == 0, "all erased: the table is empty");
            if (pt->n > 0) {
                m_erase(&h, &m, 0);                          /* no-op on the empty table */
                vf_check_struct(&h, &m);
                m_insert(&h, &m, 0, pt->k[0]);
                m_insert(&h, &m, 4, pt->k[0]);               /* a second element under the same key */
                vf_check(&h, &m, 4);
            }
            cstl_hash_clear(&h, NULL);
            VF_REACH(mm == VF_MHI && pi == VF_PHI, "largest table and longest key pattern exercised");
        }
    }
    VF_END();
}
#endif

/* ------------------------------------------------------------------ scenario builder shared by B2 / B3 */
/* four elements under keys 0,1,3,1 in a table (m1,f1), a resize request (m2,f2), then the first
 * s of four keyed operations; element 4 (key 2) and element 5 (spare) are not inserted */
static const size_t vf_keys4[4] = { 0, 1, 3, 1 };
static void vf_keyed_op(struct cstl_hash * h, struct vf_model * m, int code)
{
    switch (code) {
    case 0: vf_find_any_check(h, m, 1); break;
    case 1: m_insert(h, m, 4, 2); break;
    case 2: m_erase(h, m, 1); break;
    case 3: vf_find_check(h, m, 3, -1); break;
    case 4: vf_find_any_check(h, m, 2); break;
    default: m_erase(h, m, 0); break;
    }
    vf_check_struct(h, m);
}
static void vf_build(struct cstl_hash * h, struct vf_model * m, size_t m1, int f1, size_t m2, int f2, const int * ops, int s)
{
    int j;
    vf_reset(h, m);
    m_resize(h, m1, f1);
    for (j = 0; j < 4; j++) {
        m_insert(h, m, j, vf_keys4[j]);
    }
    vf_check_struct(h, m);
    m_resize(h, m2, f2);
    VF_ASSERT(H_PENDING(h) == (m1 != m2 || f1 != f2), "resize: a request that differs from the current geometry starts a rehash, an equal one does nothing");
    VF_ASSERT(!H_PENDING(h) || (h->bucket.rh.clean == 0 && h->bucket.count == m1), "resize: the sweep starts at bucket 0 of the old geometry");
    vf_check_struct(h, m);
    for (j = 0; j < s; j++) {
        vf_keyed_op(h, m, ops[j]);
    }
}
static void vf_load_check(const struct cstl_hash * h, const struct vf_model * m)
{
    VF_ASSERT(cstl_hash_load(h) == (float)vf_nlive(m) / (float)vf_req_n, "load: size divided by the most recently requested bucket count");
}

/* ------------------------------------------------------------------ B2: everything while a rehash is pending */
#if defined(VF_B) && VF_B == 2
#ifndef VF_M1
#define VF_M1 4
#endif
#ifndef VF_VAR_LO
#define VF_VAR_LO 0
#define VF_VAR_HI 5
#endif
#ifndef VF_SMAX
#define VF_SMAX 4
#endif
#ifndef VF_F1_LO
#define VF_F1_LO 0
#define VF_F1_HI 1
#endif
/* For every (f1) -> (m2,f2), every prefix length s of the keyed operations and every variant v:
 *   0 nothing more (keyed operations only)        3 cstl_hash_rehash (forced completion)
 *   1 a second resize to a third geometry         4 cstl_hash_shrink_to_fit
 *   2 resize back to the original geometry        5 cstl_hash_swap with a second table
 * then the full checker (whose lookups drive whatever is still pending to completion, under the
 * C19 monitor), the installed geometry and the load factor. */
void h_b_rehash(void)
{
    const size_t m1 = VF_M1;
    size_t m2;
    int f1, f2, s, v;
    int saw_second_while_pending = 0, saw_back_while_pending = 0, saw_forced = 0, saw_shrink_forced = 0, saw_swap_pending = 0;
    for (f1 = VF_F1_LO; f1 <= VF_F1_HI; f1++) {
        for (m2 = 1; m2 <= 4; m2++) {
            for (f2 = 0; f2 < 2; f2++) {
                for (s = 0; s <= VF_SMAX; s++) {
                    for (v = VF_VAR_LO; v <= VF_VAR_HI; v++) {
                        struct cstl_hash h, h2; struct vf_model m, mb;
                        struct cstl_hash * t = &h;
                        size_t exp_n = m2; int exp_f = f2, was_pending, ops[4], j;
                        /* vary the order of the keyed operations and the element the checker looks up first, so that
                         * across the scenarios each key is the first one used on a freshly pending table */
                        for (j = 0; j < 4; j++) ops[j] = (j + 2 * f2 + (int)m2) % 4;
                        vf_build(&h, &m, m1, f1, m2, f2, ops, s);
                        was_pending = H_PENDING(&h);
                        if (v == 1) {
                            exp_n = (m2 % 4) + 1; exp_f = 1 - f2;
                            m_resize(&h, exp_n, exp_f);
                            VF_ASSERT(H_PENDING(&h) && h.bucket.count == m2 && h.bucket.hash == vf_fn(f2),
                                      "second resize: the earlier request is completed first, the new one is pending");
                            saw_second_while_pending |= was_pending;
                        } else if (v == 2) {
                            exp_n = m1; exp_f = f1;
                            m_resize(&h, exp_n, exp_f);
                            VF_ASSERT(H_PENDING(&h) == (m1 != m2 || f1 != f2), "resize back: pending unless the table never left the original geometry");
                            saw_back_while_pending |= was_pending;
                        } else if (v == 3) {
                            cstl_hash_rehash(&h);
                            VF_ASSERT(!H_PENDING(&h) && h.bucket.count == m2 && h.bucket.hash == vf_fn(f2), "forced rehash: the requested geometry is installed, nothing is pending");
                            saw_forced |= was_pending;
                        } else if (v == 4) {
                            const size_t cap = h.bucket.capacity;
                            cstl_hash_shrink_to_fit(&h);
                            VF_ASSERT((H_PENDING(&h) ? h.bucket.rh.count : h.bucket.count) == m2 && (H_PENDING(&h) ? h.bucket.rh.hash : h.bucket.hash) == vf_fn(f2),
                                      "shrink-to-fit: the effective geometry is unchanged");
                            VF_ASSERT(h.bucket.capacity == m2 && h.bucket.capacity >= h.bucket.count, "shrink-to-fit: the bucket array holds exactly the effective geometry");
                            VF_ASSERT(cap == m2 || !H_PENDING(&h), "shrink-to-fit: releasing buckets completes the rehash first");
                            saw_shrink_forced |= was_pending && cap > m2;
                        } else if (v == 5) {
                            /* a second table holding the spare element; the two tables trade places */
                            int i;
                            for (i = 0; i < VF_POOL; i++) { mb.live[i] = 0; mb.key[i] = 0; }
                            cstl_hash_init(&h2, offsetof(struct vf_el, hn));
                            cstl_hash_resize(&h2, 2, cstl_hash_div);
                            cstl_hash_insert(&h2, 0, ELEM(5));
                            mb.live[5] = 1; mb.key[5] = 0;
                            vf_check_struct(&h2, &mb);
                            cstl_hash_swap(&h, &h2);
                            t = &h2;
                            vf_check_struct(&h, &mb);
                            VF_ASSERT(H_PENDING(&h2) == was_pending && !H_PENDING(&h), "swap: a pending rehash travels with its table");
                            saw_swap_pending |= was_pending;
                        }
                        vf_check(t, &m, 2 + s + v);          /* s == 0: element 2 first, whose old bucket is the last to be swept */
                        VF_ASSERT(!H_PENDING(t) && t->bucket.count == exp_n && t->bucket.hash == vf_fn(exp_f), "the most recently requested geometry is installed once the rehash is complete");
                        vf_load_check(t, &m);
                        if (v == 5) {
                            vf_check(&h, &mb, s);
                            VF_ASSERT(h.bucket.count == 2 && h.bucket.hash == cstl_hash_div, "swap: the other table arrived with its geometry");
                            cstl_hash_clear(&h, NULL);
                        }
                        cstl_hash_clear(t, NULL);
                    }
                }
            }
        }
    }
    VF_REACH(vf_max_moved >= (VF_M1 >= 3 ? 3 : VF_M1) && vf_max_moved <= 3, "a keyed operation that relocates as many buckets as the geometry and the bound allow");
    VF_REACH(vf_completed_by_op, "a keyed operation completes a rehash");
    /* (with `half` the four keys occupy two old buckets and the first keyed operation completes the sweep) */
    VF_REACH(vf_saw_new_bucket_node || VF_M1 == 4 || VF_M1 == 1 || VF_F1_LO > 0, "nodes seen in buckets added by a pending grow");
    VF_REACH(vf_saw_pending_shrink || VF_M1 == 1, "a pending shrink seen");
#if VF_VAR_LO <= 1 && VF_VAR_HI >= 1
    VF_REACH(saw_second_while_pending, "second resize issued while the first is pending");
#endif
#if VF_VAR_LO <= 2 && VF_VAR_HI >= 2
    VF_REACH(saw_back_while_pending, "resize back issued while pending");
#endif
#if VF_VAR_LO <= 3 && VF_VAR_HI >= 3
    VF_REACH(saw_forced, "forced rehash of a pending table");
#endif
#if VF_VAR_LO <= 4 && VF_VAR_HI >= 4
    VF_REACH(saw_shrink_forced || VF_M1 == 1, "shrink-to-fit of a table with a pending shrink");
#endif
#if VF_VAR_LO <= 5 && VF_VAR_HI >= 5
    VF_REACH(saw_swap_pending, "swap of a table with a pending rehash");
#endif
    (void)saw_second_while_pending; (void)saw_back_while_pending; (void)saw_forced; (void)saw_shrink_forced; (void)saw_swap_pending;
    VF_END();
}
#endif

/* ------------------------------------------------------------------ B3: foreach / foreach_const / clear (C04) */
#if defined(VF_B) && VF_B == 3
struct vf_state { size_t m1; int f1; size_t m2; int f2; int s; int ops[2]; size_t m3; int f3; int fit; };
static const struct vf_state vf_states[] = {
    { 3, 0, 3, 0, 0, { 0, 0 } },      /* 0 no rehash pending                                                */
    { 2, 0, 4, 0, 0, { 0, 0 } },      /* 1 grow pending, nothing relocated yet                              */
    { 2, 0, 4, 0, 1, { 0, 0 } },      /* 2 grow pending, elements already relocated into the new buckets    */
    { 1, 0, 4, 1, 0, { 0, 0 } },      /* 3 grow from a single bucket, other hash function                   */
    { 4, 0, 2, 0, 0, { 0, 0 } },      /* 4 shrink pending, nothing relocated yet                            */
    { 4, 0, 2, 1, 1, { 0, 0 } },      /* 5 shrink pending, partly relocated, other hash function            */
    { 4, 0, 1, 2, 1, { 0, 0 } },      /* 6 shrink to one bucket, partly relocated                           */
    { 4, 1, 4, 0, 1, { 0, 0 } },      /* 7 same bucket count, other hash function                           */
    { 4, 0, 3, 0, 2, { 1, 5 } },      /* 8 shrink pending after an insert and an erase, five-element history */
    { 3, 0, 4, 0, 1, { 1, 0 } },      /* 9 grow pending after an insert: five live elements                 */
    { 3, 0, 4, 0, 1, { 0, 0 }, 6, 0 },  /* 10 a SECOND grow requested while the first is pending and partly relocated (seeded change C04-4) */
    { 3, 0, 4, 0, 1, { 1, 0 }, 5, 1 },  /* 11 the same after an insert, other hash function for the second request */
    { 3, 0, 4, 0, 1, { 0, 0 }, 2, 0 },  /* 12 a shrink requested while a grow is pending                       */
    { 3, 0, 4, 0, 1, { 0, 0 }, 0, 0, 1 },  /* 13 shrink_to_fit while a grow is pending with elements in the new buckets (seeded change C04-5) */
    { 6, 0, 5, 0, 0, { 0, 0 } },        /* 14 more dirty buckets than elements: the forced completion must not be budgeted by the element count (C04-6) */
};
#define VF_NSTATES ((int)(sizeof(vf_states) / sizeof(vf_states[0])))
#ifndef VF_ST_LO
#define VF_ST_LO 0
#define VF_ST_HI (VF_NSTATES - 1)
#endif

static int vf_v_seen[VF_POOL], vf_v_n, vf_v_stop, vf_v_erase, vf_v_token;
static struct cstl_hash * vf_v_h;
static struct vf_model * vf_v_m;
static int vf_visit_common(const void * e, void * p)
{
    const int i = vf_index_of(e);
    VF_ASSERT(p == &vf_v_token, "foreach: the caller's private pointer is handed through");
    VF_ASSERT(i >= 0, "foreach: only inserted elements are visited");
    if (i < 0) return 99;
    VF_ASSERT(!vf_pool[i].poisoned, "foreach: a released element is not visited again");
    VF_ASSERT(vf_v_m->live[i], "foreach: only live elements are visited");
    vf_v_seen[i]++;
    if (vf_v_erase) {
        /* the callback removes the element it is given from the table and releases it */
        m_erase(vf_v_h, vf_v_m, i);
        vf_pool[i].poisoned = 1;
        vf_pool[i].hn.next = VF_GARBAGE;
        vf_pool[i].hn.key = 99;
    }
    return vf_v_n++ == vf_v_stop ? VF_STOPVAL(vf_v_stop) : 0;
}
static int vf_cvisit(const void * e, void * p) { return vf_visit_common(e, p); }
static int vf_visit(void * e, void * p) { return vf_visit_common(e, p); }

/* run one traversal; `was` is the model before it (the erasing callback changes the model) */
static void vf_traverse(struct cstl_hash * h, struct vf_model * m, int constant, int stop, int erase)
{
    struct vf_model was = *m;
    const int n = vf_nlive(m);
    int i, res, total = 0;
    for (i = 0; i < VF_POOL; i++) vf_v_seen[i] = 0;
    vf_v_n = 0; vf_v_stop = stop; vf_v_erase = erase; vf_v_h = h; vf_v_m = m;
    if (constant) {
        const int pending = H_PENDING(h);
        const size_t clean = h->bucket.rh.clean, count = h->bucket.count;
        res = cstl_hash_foreach_const(h, vf_cvisit, &vf_v_token);
        VF_ASSERT(H_PENDING(h) == pending && h->bucket.count == count && (!pending || h->bucket.rh.clean == clean), "foreach_const: the table is not touched");
    } else {
        const size_t exp_n = H_PENDING(h) ? h->bucket.rh.count : h->bucket.count;
        cstl_hash_func_t * const exp_f = H_PENDING(h) ? h->bucket.rh.hash : h->bucket.hash;
        res = cstl_hash_foreach(h, vf_visit, &vf_v_token);
        VF_ASSERT(!H_PENDING(h) && h->bucket.count == exp_n && h->bucket.hash == exp_f, "foreach: a pending rehash is completed first");
    }
    for (i = 0; i < VF_POOL; i++) {
        VF_ASSERT(vf_v_seen[i] <= 1, "foreach: no element is visited twice");
        VF_ASSERT(was.live[i] || vf_v_seen[i] == 0, "foreach: an element that is not in the table is not visited");
        total += vf_v_seen[i];
    }
    VF_ASSERT(total == vf_v_n, "foreach: visits are counted once each");
    if (stop >= 0 && stop < n) {
        VF_ASSERT(res == VF_STOPVAL(stop), "foreach: the value with which the visit function asks to stop is returned");
        VF_ASSERT(vf_v_n == stop + 1, "foreach: no visit after the visit function asked to stop");
    } else {
        VF_ASSERT(res == 0, "foreach: 0 when the visit function never asks to stop");
        VF_ASSERT(vf_v_n == n, "foreach: every live element is visited exactly once");
    }
    if (erase) {
        VF_ASSERT(cstl_hash_size(h) == (size_t)(n - vf_v_n), "foreach: the visited elements were removed by the callback");
    }
    vf_check_struct(h, m);
}

static int vf_c_seen[VF_POOL], vf_c_n;
static void vf_clr(void * e, void * p)
{
    const int i = vf_index_of(e);
    (void)p;
    VF_ASSERT(i >= 0, "clear: only inserted elements are handed over");
    if (i < 0) return;
    VF_ASSERT(!vf_pool[i].poisoned, "clear: each element is handed over at most once");
    vf_pool[i].poisoned = 1;
    vf_pool[i].hn.next = VF_GARBAGE;           /* the callback may free / reuse the memory */
    vf_pool[i].hn.key = 99;
    vf_c_seen[i]++;
    vf_c_n++;
}

void h_b_enum(void)
{
    int si, a, i, stop;
    int grow_relocated_const = 0, grow_relocated_clear = 0, shrink_const = 0, shrink_clear = 0, erase_all = 0;
    for (si = VF_ST_LO; si <= VF_ST_HI; si++) {
        const struct vf_state * const st = &vf_states[si];
        for (a = 0; a < 6; a++) {
            struct cstl_hash h; struct vf_model m;
            int n, grow_relocated, shrinking;
            vf_saw_new_bucket_node = 0;
            vf_build(&h, &m, st->m1, st->f1, st->m2, st->f2, st->ops, st->s);
            if (st->fit) {
                VF_ASSERT(H_PENDING(&h) && vf_saw_new_bucket_node, "shrink_to_fit meets a pending grow with elements already in the new buckets");
                cstl_hash_shrink_to_fit(&h);
                vf_check_struct(&h, &m);
            }
            if (st->m3 != 0) {
                VF_ASSERT(H_PENDING(&h) && vf_saw_new_bucket_node, "the second resize meets a pending grow with elements already in the new buckets");
                m_resize(&h, st->m3, st->f3);
                vf_check_struct(&h, &m);
            }
            n = vf_nlive(&m);
            grow_relocated = vf_saw_new_bucket_node && H_PENDING(&h);
            shrinking = H_PENDING(&h) && h.bucket.rh.count < h.bucket.count;
            VF_ASSERT(si == 0 || H_PENDING(&h), "the chosen scenarios leave the rehash pending");
            if (a == 0) {
                /* foreach_const does not change the table: the complete walk and every stop position on the same table */
                vf_traverse(&h, &m, 1, -1, 0);
                for (stop = 0; stop < n; stop++) {
                    vf_traverse(&h, &m, 1, stop, 0);
                }
                grow_relocated_const |= grow_relocated;
                shrink_const |= shrinking;
            } else if (a == 1) {
                vf_traverse(&h, &m, 0, -1, 0);
            } else if (a == 2) {
                /* the first call meets the pending table, the later ones the settled one */
                for (stop = 0; stop < n; stop++) {
                    vf_traverse(&h, &m, 0, stop, 0);
                }
            } else if (a == 3) {
                vf_traverse(&h, &m, 0, -1, 1);
                VF_ASSERT(cstl_hash_size(&h) == 0, "foreach with an erasing callback empties the table");
                erase_all |= n >= 4;
            } else if (a == 4) {
                vf_traverse(&h, &m, 0, 1, 1);
                vf_traverse(&h, &m, 0, -1, 0);              /* the survivors, once each */
            } else {
                for (i = 0; i < VF_POOL; i++) vf_c_seen[i] = 0;
                vf_c_n = 0;
                cstl_hash_clear(&h, vf_clr);
                for (i = 0; i < VF_POOL; i++) {
                    VF_ASSERT(vf_c_seen[i] == (m.live[i] ? 1 : 0), "clear: every live element is handed to the callback exactly once, nothing else is");
                    m.live[i] = 0;
                }
                VF_ASSERT(vf_c_n == n, "clear: the callback runs once per live element");
                VF_ASSERT(h.bucket.at == NULL && h.bucket.count == 0 && h.bucket.capacity == 0 && h.bucket.hash == NULL && h.bucket.rh.hash == NULL &&
                          cstl_hash_size(&h) == 0 && h.off == offsetof(struct vf_el, hn), "clear: the table equals a freshly initialised one");
                /* reusable: the default hash function is chosen again, as on a fresh table */
                cstl_hash_resize(&h, 2, NULL);
                VF_ASSERT(!H_PENDING(&h) && h.bucket.count == 2 && h.bucket.hash == cstl_hash_mul, "clear: a fresh resize lands at once with the default hash function");
                m_insert(&h, &m, 0, 1);
                m_insert(&h, &m, 2, 2);
                vf_check(&h, &m, 0);
                grow_relocated_clear |= grow_relocated;
                shrink_clear |= shrinking;
            }
            vf_check(&h, &m, a);
            cstl_hash_clear(&h, NULL);
        }
    }
#define VF_HAS(x) (VF_ST_LO <= (x) && (x) <= VF_ST_HI)
#define VF_HAS_GROW (VF_HAS(2) || VF_HAS(9))
#define VF_HAS_SHRINK (VF_HAS(4) || VF_HAS(5) || VF_HAS(6) || VF_HAS(8))
    VF_REACH(grow_relocated_const || !VF_HAS_GROW, "foreach_const on a pending grow with elements already in the new buckets");
    VF_REACH(grow_relocated_clear || !VF_HAS_GROW, "clear on a pending grow with elements already in the new buckets");
    VF_REACH(shrink_const || !VF_HAS_SHRINK, "foreach_const on a pending shrink");
    VF_REACH(shrink_clear || !VF_HAS_SHRINK, "clear on a pending shrink");
    VF_REACH(erase_all, "erasing callback over a table of at least four elements");
    (void)grow_relocated_const; (void)grow_relocated_clear; (void)shrink_const; (void)shrink_clear; (void)erase_all;
    VF_END();
}
#endif

#ifdef VF_NATIVE
struct vf_harness { const char * name; void (*fn)(void); };
struct vf_harness vf_harnesses[] = {
#if defined(VF_B) && VF_B == 1
    { "h_b_basic", h_b_basic },
#elif defined(VF_B) && VF_B == 2
    { "h_b_rehash", h_b_rehash },
#elif defined(VF_B) && VF_B == 3
    { "h_b_enum", h_b_enum },
#endif
    { NULL, NULL }
};
#endif
