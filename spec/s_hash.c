/* Contracts for /repo/src/hash.c  (C03 flat part, C04, C16, C17, C19).
 *
 * Everything here is specification; the code under verification is pulled in verbatim by
 * the #include "hash.c" below (scratch copy of /repo/src/hash.c with loop-contract clauses
 * inserted between loop heads and bodies by vflib/prep.py).
 *
 * The contract of a function is selected per group with -DVF_G_<group>: CBMC attaches one
 * contract to one function name, and some functions need a different pre-state family per
 * group (freshly initialised table vs. table in use).
 */
#include <stdlib.h>
#include "cstl/hash.h"
/* realloc model: the preserved ghost window is one bucket, copied as a typed element */
#define VF_KEEP_UNIT 16
#define VF_KEEP_STRUCT struct cstl_hash_bucket
#include "vf.h"
#ifndef VF_CHAIN
#define VF_CHAIN 0
#endif

/* ------------------------------------------------------------------ ghost state */
size_t vf_w_k, vf_w_m, vf_w_n, vf_w_count, vf_w_capacity, vf_w_rh_count, vf_w_rh_clean, vf_w_size;
size_t vf_w_len;                       /* bounded groups: chain length */
size_t vf_w_g;                         /* ghost bucket index: stands for "every bucket" */
_Bool vf_w_pending, vf_w_cst;
int vf_w_fsel;

/* caller-supplied hash functions: nondeterministic result, calls recorded */
size_t vf_hash_ret, vf_hash_k, vf_hash_m;
size_t vf_hash_ret1;                   /* answer of the CURRENT (old-geometry) function at its last consultation */
size_t vf_hash_calls1, vf_hash_calls2;
#ifdef VF_NATIVE
#define nondet_size_t() 0
#endif
size_t vf_hash_stub1(size_t k, size_t m)
{
    size_t r = nondet_size_t();
    vf_hash_calls1++; vf_hash_k = k; vf_hash_m = m; vf_hash_ret = r; vf_hash_ret1 = r;
    return r;
}
size_t vf_hash_stub2(size_t k, size_t m)
{
    size_t r = nondet_size_t();
    vf_hash_calls2++; vf_hash_k = k; vf_hash_m = m; vf_hash_ret = r;
    return r;
}
size_t vf_hash_stub3(size_t k, size_t m)
{
    (void)k; (void)m;
    return 0;
}

size_t vf_dirty_cleaned;               /* cstl_clean_bucket calls that found a dirty bucket */
size_t vf_walked;                      /* cstl_hash_bucket_foreach calls so far             */
int vf_walk_last;                      /* result of the most recent one                      */
_Bool vf_walk_stopped;                 /* a non-zero result has been returned                */

/* ------------------------------------------------------------------ predicates */
#define H_NB            (sizeof(struct cstl_hash_bucket))
#define H_PEND(h)       ((h)->bucket.rh.hash != NULL)
#define H_EFFN(h)       (H_PEND(h) ? (h)->bucket.rh.count : (h)->bucket.count)
#define H_EFFF(h)       (H_PEND(h) ? (h)->bucket.rh.hash : (h)->bucket.hash)
/* every bucket that can hold an element: during a grow the new buckets already do */
#define H_SPAN(h)       ((H_PEND(h) && (h)->bucket.rh.count > (h)->bucket.count) \
                         ? (h)->bucket.rh.count : (h)->bucket.count)
/* the same over the pre-state (CBMC's old() applies to lvalues only) */
#define O_PEND(h)       (OLD((h)->bucket.rh.hash) != NULL)
#define O_EFFN(h)       (O_PEND(h) ? OLD((h)->bucket.rh.count) : OLD((h)->bucket.count))
#define O_EFFF(h)       (O_PEND(h) ? OLD((h)->bucket.rh.hash) : OLD((h)->bucket.hash))
#define O_SPAN(h)       ((O_PEND(h) && OLD((h)->bucket.rh.count) > OLD((h)->bucket.count)) \
                         ? OLD((h)->bucket.rh.count) : OLD((h)->bucket.count))
#ifndef H_CAPMAX
#define H_CAPMAX        ((size_t)UINT_MAX)
#endif
#define H_FLAT(h)       ((h)->bucket.count >= 1 && (h)->bucket.count <= (h)->bucket.capacity &&      \
                         (h)->bucket.capacity <= H_CAPMAX && (h)->bucket.hash != NULL &&             \
                         (!H_PEND(h) || ((h)->bucket.rh.count >= 1 &&                               \
                                         (h)->bucket.rh.count <= (h)->bucket.capacity &&           \
                                         (h)->bucket.rh.clean <= (h)->bucket.count)))
#define H_INIT(h)       ((h)->bucket.at == NULL && (h)->bucket.count == 0 && (h)->bucket.capacity == 0 && \
                         (h)->bucket.hash == NULL && (h)->bucket.rh.hash == NULL && (h)->count == 0)
/* the table object and its bucket array are live, separate objects */
#define H_OBJ(h)        (FRESH(h, sizeof(struct cstl_hash)) && (h)->bucket.capacity >= 1 &&            \
                         (h)->bucket.capacity <= H_CAPMAX &&                                          \
                         FRESH((h)->bucket.at, (h)->bucket.capacity * H_NB) && H_WITNESS(h))
/* witness variables: tie the symbolic pre-state to named inputs, so that a counterexample
 * trace carries the values needed to rebuild the state natively (vf replay) */
#define H_WITNESS(h)    (vf_w_capacity == (h)->bucket.capacity && vf_w_count == (h)->bucket.count &&   \
                         vf_w_pending == H_PEND(h) && vf_w_rh_count == (h)->bucket.rh.count &&       \
                         vf_w_rh_clean == (h)->bucket.rh.clean && vf_w_size == (h)->count &&          \
                         vf_w_cst == (h)->bucket.cst)
#define H_WIT_IN()      do { VF_IN_SIZE(capacity); VF_IN_SIZE(count); VF_IN_BOOL(pending); VF_IN_SIZE(rh_count); \
                             VF_IN_SIZE(rh_clean); VF_IN_SIZE(size); VF_IN_BOOL(cst); } while (0)
#define H_IS_BUCKET(h, bk) (__CPROVER_same_object(bk, (h)->bucket.at) &&                               \
                         __CPROVER_POINTER_OFFSET(bk) % H_NB == 0 &&                                 \
                         __CPROVER_POINTER_OFFSET(bk) / H_NB < (h)->bucket.capacity)
#define H_BUCKET_IDX(bk) (__CPROVER_POINTER_OFFSET(bk) / H_NB)
/* a valid _Bool object holds 0 or 1 (type invariant of the inputs); stamps are compared as bytes */
/* stamps are compared as the 8-bit objects they are (CBMC compares _Bool objects bit for bit);
 * H_CANON states the type invariant.  Byte-wise access through a char pointer is avoided: it makes
 * CBMC flatten the whole symbolic bucket array (20x formula size, measured). */
#ifdef VF_BYTE_STAMPS
/* the byte-wise spelling of the same two predicates; used by the one group (hash.get_bucket)
 * where CBMC 6.11 gives an inconsistent verdict for the typed spelling after two successive
 * whole-array havocs (measured; the two spellings are equivalent: see DESIGN.md section 10) */
#define H_BYTE(x)       (*(const unsigned char *)&(x))
#define H_CANON(x)      (H_BYTE(x) <= 1)
#define H_CANON_OLD(x)  (OLD(H_BYTE(x)) <= 1)
#define H_CANON_ENTRY(x) (__CPROVER_loop_entry(H_BYTE(x)) <= 1)
#else
#define H_BYTE(x)       (x)
#define H_CANON(x)      ((x) == (_Bool)0 || (x) == (_Bool)1)
#define H_CANON_OLD(x)  H_CANON(OLD(x))
#define H_CANON_ENTRY(x) H_CANON(__CPROVER_loop_entry(x))
#endif
/* sweep invariant, stated for the ghost index g (arbitrary, so for every bucket):
 * buckets below the sweep position are clean; during a grow the added buckets are clean; and when NO
 * rehash is pending every bucket in use is clean (the "settled" part: a flipped table stamp without a
 * scheduled sweep would make the next resize skip every bucket -- seeded change C16-6) */
#define H_CLEAN_AT(h, g) (H_BYTE((h)->bucket.at[g].cst) == H_BYTE((h)->bucket.cst))
#define H_SWEEP(h, g)   (H_CANON((h)->bucket.cst) &&                                              \
                         ((g) >= H_SPAN(h) ||                                                         \
                          (H_CANON((h)->bucket.at[g].cst) &&                                      \
                           ((H_PEND(h) && ((g) >= (h)->bucket.rh.clean) && ((g) < (h)->bucket.count)) || \
                            H_CLEAN_AT(h, g)))))
#define H_USES_STUBS(h) ((h)->bucket.hash == vf_hash_stub1 &&                                        \
                         ((h)->bucket.rh.hash == NULL || (h)->bucket.rh.hash == vf_hash_stub2))

/* ------------------------------------------------------------------ contracts */

/* C17: the built-in hash functions stay in range */
size_t cstl_hash_div(const size_t k, const size_t m)
REQUIRES(m >= 1)
ASSIGNS()
ENSURES(RESULT < m)
;

size_t cstl_hash_mul(const size_t k, const size_t m)
REQUIRES(m >= 1)
#ifdef VF_MUL_LO
REQUIRES(m <= VF_MUL_HI && m >= VF_MUL_LO)
#endif
ASSIGNS()
ENSURES(RESULT < m)
;

/* C17: bucket selection is fail-stop.  Returns a bucket inside [0,count) or does not return. */
static struct cstl_hash_bucket * __cstl_hash_get_bucket(
    struct cstl_hash * const h, const size_t k,
    cstl_hash_func_t * const hash, const size_t count)
#ifdef VF_G_get_bucket_raw
REQUIRES(H_OBJ(h))
#endif
REQUIRES(count <= h->bucket.capacity)
REQUIRES(hash == vf_hash_stub1 || hash == vf_hash_stub2)
ASSIGNS(vf_hash_calls1, vf_hash_calls2, vf_hash_k, vf_hash_m, vf_hash_ret, vf_aborted; hash == vf_hash_stub1: vf_hash_ret1)
ENSURES(hash == vf_hash_stub1 ==> (vf_hash_calls1 == OLD(vf_hash_calls1) + 1 && vf_hash_calls2 == OLD(vf_hash_calls2)))
ENSURES(hash == vf_hash_stub2 ==> (vf_hash_calls2 == OLD(vf_hash_calls2) + 1 && vf_hash_calls1 == OLD(vf_hash_calls1)))
ENSURES(vf_hash_k == k && vf_hash_m == count)
ENSURES(vf_hash_ret < count && RESULT == &h->bucket.at[vf_hash_ret])
ENSURES(hash == vf_hash_stub1 ==> vf_hash_ret1 == vf_hash_ret)
;

/* Flat contract of cstl_clean_bucket: what the array-level functions may rely on.
 * Chain contents are not described (the bucket array is in the frame as a whole);
 * the clean stamps are: the cleaned bucket becomes clean, no other stamp changes. */
static void cstl_clean_bucket(
    struct cstl_hash * const h, struct cstl_hash_bucket * const bk)
#ifdef VF_G_clean_bucket
REQUIRES(H_OBJ(h))
#endif
REQUIRES(H_IS_BUCKET(h, bk))
REQUIRES(vf_w_g < h->bucket.capacity && vf_dirty_cleaned <= ((size_t)1 << 40) && H_CANON(h->bucket.cst))
ASSIGNS(vf_dirty_cleaned, __CPROVER_object_whole(h->bucket.at))

ENSURES(H_BYTE(bk->cst) == H_BYTE(h->bucket.cst) && H_CANON(bk->cst))
ENSURES(vf_dirty_cleaned == OLD(vf_dirty_cleaned) + (OLD(H_BYTE(bk->cst)) != H_BYTE(h->bucket.cst) ? 1 : 0))
ENSURES(H_BUCKET_IDX(bk) == vf_w_g || !H_CANON_OLD(h->bucket.at[vf_w_g].cst) ||
        (H_BYTE(h->bucket.at[vf_w_g].cst) == OLD(H_BYTE(h->bucket.at[vf_w_g].cst)) && H_CANON(h->bucket.at[vf_w_g].cst)))
;

/* C19: the sweep.  Cleans at most n dirty buckets, advances by at least min(n, rest),
 * completes the rehash exactly when the sweep has passed the last old bucket. */
static void __cstl_hash_rehash(struct cstl_hash * const h, size_t n)
#ifdef VF_G_rehash_n
REQUIRES(H_OBJ(h))
#endif
REQUIRES(H_FLAT(h) && H_PEND(h) && n >= 1 && vf_dirty_cleaned <= 16)
REQUIRES(vf_w_g < h->bucket.capacity)
REQUIRES(H_SWEEP(h, vf_w_g))
ASSIGNS(h->bucket.rh.clean, h->bucket.count, h->bucket.hash, h->bucket.rh.hash,
        vf_dirty_cleaned, __CPROVER_object_whole(h->bucket.at))
ENSURES(H_FLAT(h))
ENSURES(vf_dirty_cleaned >= OLD(vf_dirty_cleaned) && vf_dirty_cleaned - OLD(vf_dirty_cleaned) <= n)
ENSURES(vf_dirty_cleaned - OLD(vf_dirty_cleaned) <= OLD(h->bucket.count) - OLD(h->bucket.rh.clean))
/* still pending: geometry untouched, sweep advanced by at least n */
ENSURES(H_PEND(h) ==> (h->bucket.count == OLD(h->bucket.count) && h->bucket.hash == OLD(h->bucket.hash) &&
                       h->bucket.rh.count == OLD(h->bucket.rh.count) && h->bucket.rh.hash == OLD(h->bucket.rh.hash) &&
                       h->bucket.rh.clean >= OLD(h->bucket.rh.clean) &&
                       h->bucket.rh.clean - OLD(h->bucket.rh.clean) >= n))
/* completed: the requested geometry is now the current one */
ENSURES(!H_PEND(h) ==> (h->bucket.count == OLD(h->bucket.rh.count) && h->bucket.hash == OLD(h->bucket.rh.hash)))
/* completion happens only when every old bucket has been passed, and then every bucket is clean */
ENSURES(H_SWEEP(h, vf_w_g))
ENSURES((!H_PEND(h) && vf_w_g < OLD(h->bucket.count)) ==> H_CLEAN_AT(h, vf_w_g))
/* a clean bucket stays clean */
ENSURES(OLD(H_BYTE(h->bucket.at[vf_w_g].cst)) == H_BYTE(h->bucket.cst) ==> H_CLEAN_AT(h, vf_w_g))
/* stamps stay well-formed */
ENSURES(H_CANON_OLD(h->bucket.at[vf_w_g].cst) ==> H_CANON(h->bucket.at[vf_w_g].cst))
ENSURES(h->bucket.capacity == OLD(h->bucket.capacity) && h->bucket.at == OLD(h->bucket.at) &&
        h->bucket.cst == OLD(h->bucket.cst) && h->count == OLD(h->count))
;

/* forced completion; a no-op when nothing is pending */
void cstl_hash_rehash(struct cstl_hash * const h)
#if defined(VF_G_resize_init)
/* freshly initialised table: nothing pending, nothing happens */
REQUIRES(!H_PEND(h))
ASSIGNS()
ENSURES(!H_PEND(h))
#else
#ifdef VF_G_rehash
REQUIRES(H_OBJ(h))
#endif
REQUIRES(vf_w_g < h->bucket.capacity)
REQUIRES(!H_PEND(h) || (H_FLAT(h) && H_SWEEP(h, vf_w_g) && vf_dirty_cleaned <= 8))
ASSIGNS(h->bucket.rh.clean, h->bucket.count, h->bucket.hash, h->bucket.rh.hash, vf_dirty_cleaned)
ASSIGNS(H_PEND(h): __CPROVER_object_whole(h->bucket.at))
ENSURES(!H_PEND(h))
ENSURES(O_PEND(h) ==> H_FLAT(h))
ENSURES(h->bucket.count == (O_PEND(h) ? OLD(h->bucket.rh.count) : OLD(h->bucket.count)))
ENSURES(h->bucket.hash == (O_PEND(h) ? OLD(h->bucket.rh.hash) : OLD(h->bucket.hash)))
ENSURES((O_PEND(h) && vf_w_g < OLD(h->bucket.count)) ==> H_CLEAN_AT(h, vf_w_g))
ENSURES(OLD(H_BYTE(h->bucket.at[vf_w_g].cst)) == H_BYTE(h->bucket.cst) ==> H_CLEAN_AT(h, vf_w_g))
ENSURES(H_CANON_OLD(h->bucket.at[vf_w_g].cst) ==> H_CANON(h->bucket.at[vf_w_g].cst))
ENSURES(h->bucket.capacity == OLD(h->bucket.capacity) && h->bucket.at == OLD(h->bucket.at) &&
        h->bucket.cst == OLD(h->bucket.cst) && h->count == OLD(h->count))
#endif
;

/* C19 / C03: keyed access.  Bounded work, sweep progress, result inside the array. */
static struct cstl_hash_bucket * cstl_hash_get_bucket(
    struct cstl_hash * const h, const size_t k)
REQUIRES(H_OBJ(h))
REQUIRES(H_FLAT(h) && H_USES_STUBS(h))
REQUIRES(vf_w_g < h->bucket.capacity && H_SWEEP(h, vf_w_g) && vf_dirty_cleaned == 0)
ASSIGNS(h->bucket.rh.clean, h->bucket.count, h->bucket.hash, h->bucket.rh.hash,
        vf_dirty_cleaned, __CPROVER_object_whole(h->bucket.at),
        vf_hash_calls1, vf_hash_calls2, vf_hash_k, vf_hash_m, vf_hash_ret, vf_hash_ret1, vf_aborted)
ENSURES(H_FLAT(h) && H_SWEEP(h, vf_w_g))
/* at most three buckets have their contents relocated */
ENSURES(vf_dirty_cleaned - OLD(vf_dirty_cleaned) <= 3)
/* no rehash pending: exactly one consultation of the current function with (k, count), nothing moves */
ENSURES(!O_PEND(h) ==> (vf_hash_calls1 == OLD(vf_hash_calls1) + 1 && vf_hash_calls2 == OLD(vf_hash_calls2) &&
                             vf_hash_k == k && vf_hash_m == h->bucket.count &&
                             vf_dirty_cleaned == OLD(vf_dirty_cleaned) && !H_PEND(h) &&
                             h->bucket.count == OLD(h->bucket.count) && h->bucket.hash == OLD(h->bucket.hash)))
/* pending: the sweep advances by at least one bucket, or the rehash completes */
ENSURES(O_PEND(h) ==> (!H_PEND(h) || h->bucket.rh.clean >= OLD(h->bucket.rh.clean) + 1))
ENSURES(O_PEND(h) && !H_PEND(h) ==> (h->bucket.count == OLD(h->bucket.rh.count) && h->bucket.hash == OLD(h->bucket.rh.hash)))
/* the bucket handed back lies inside the array, below the effective bucket count, and is clean */
ENSURES(H_IS_BUCKET(h, RESULT) && H_BUCKET_IDX(RESULT) < O_EFFN(h))
/* ... and it is the bucket the EFFECTIVE function (the pending one while a rehash is in progress) selects
 * for k: the last consultation was that function with (k, effective count) and its answer is the bucket.
 * This is what makes an element inserted during a rehash findable by its key during and after it. */
ENSURES(H_BUCKET_IDX(RESULT) == vf_hash_ret && vf_hash_k == k && vf_hash_m == O_EFFN(h))
ENSURES(O_PEND(h) ==> (vf_hash_calls1 == OLD(vf_hash_calls1) + 1 && vf_hash_calls2 == OLD(vf_hash_calls2) + 1))
/* ... and while a rehash is pending, the bucket the key selects under the OLD geometry has been
 * relocated too (it is clean afterwards): an element still sitting at its old place cannot be missed */
ENSURES((O_PEND(h) && vf_hash_ret1 == vf_w_g) ==> H_CLEAN_AT(h, vf_w_g))
ENSURES((O_PEND(h) && H_BUCKET_IDX(RESULT) == vf_w_g) ==> H_BYTE(RESULT->cst) == H_BYTE(h->bucket.cst))
ENSURES(h->bucket.capacity == OLD(h->bucket.capacity) && h->bucket.at == OLD(h->bucket.at) && h->count == OLD(h->count))
;

#ifdef VF_G_insert
/* C03, array level: insert makes the element the head of the chain of the bucket that the EFFECTIVE
 * function selects for k (cstl_hash_get_bucket is replaced by its proved contract), stores the key in
 * the node and counts it; the flat and sweep invariants are kept.  (What the rest of that chain is,
 * is chain-level and bounded: hashb.*.) */
#define H_NODE_OF(e)    ((struct cstl_hash_node *)((char *)(e) + 8))
void cstl_hash_insert(struct cstl_hash * const h, const size_t k, void * const e)
REQUIRES(H_OBJ(h))
REQUIRES(H_FLAT(h) && H_USES_STUBS(h))
REQUIRES(vf_w_g < h->bucket.capacity && H_SWEEP(h, vf_w_g) && vf_dirty_cleaned == 0)
REQUIRES(h->off == 8 && FRESH(e, 8 + sizeof(struct cstl_hash_node)) && h->count < SIZE_MAX)
ASSIGNS(h->bucket.rh.clean, h->bucket.count, h->bucket.hash, h->bucket.rh.hash, h->count,
        vf_dirty_cleaned, __CPROVER_object_whole(h->bucket.at), H_NODE_OF(e)->key, H_NODE_OF(e)->next,
        vf_hash_calls1, vf_hash_calls2, vf_hash_k, vf_hash_m, vf_hash_ret, vf_hash_ret1, vf_aborted)
ENSURES(H_FLAT(h) && H_SWEEP(h, vf_w_g))
ENSURES(h->count == OLD(h->count) + 1 && H_NODE_OF(e)->key == k)
ENSURES(vf_hash_k == k && vf_hash_m == O_EFFN(h) && vf_hash_ret < O_EFFN(h) && h->bucket.at[vf_hash_ret].n == H_NODE_OF(e))
ENSURES(h->bucket.capacity == OLD(h->bucket.capacity) && h->bucket.at == OLD(h->bucket.at))
;
#endif

/* C16: (re)allocation of the bucket array either lands completely or changes nothing */
static void __cstl_hash_set_capacity(struct cstl_hash * const h, const size_t sz)
#if defined(VF_G_set_capacity_init) || defined(VF_G_resize_init)
REQUIRES(FRESH(h, sizeof(struct cstl_hash)) && h->bucket.at == NULL && h->bucket.capacity == 0)
#elif defined(VF_G_set_capacity)
REQUIRES(H_OBJ(h))
#endif
/* sizes in between need more than 64 GiB and are excluded (DESIGN section 8, item 5) */
REQUIRES(sz >= 1 && (sz <= H_CAPMAX || sz > SIZE_MAX / H_NB))
ASSIGNS(h->bucket.at, h->bucket.capacity)
FREES(h->bucket.at)
#if defined(VF_G_set_capacity_init) || defined(VF_G_resize_init)
ENSURES((h->bucket.at == NULL && h->bucket.capacity == 0) ||
        (h->bucket.capacity == sz && FRESH(h->bucket.at, sz * H_NB) &&
         (vf_u128)__CPROVER_OBJECT_SIZE(h->bucket.at) >= (vf_u128)sz * H_NB))
#else
REQUIRES(vf_w_g < h->bucket.capacity && H_CANON(h->bucket.at[vf_w_g].cst))
/* failure: nothing changes and the old array stays allocated;
 * success: a separate live array of sz buckets whose first min(sz, old capacity) buckets are preserved */
ENSURES((h->bucket.at == OLD(h->bucket.at) && h->bucket.capacity == OLD(h->bucket.capacity) &&
         !__CPROVER_was_freed(h->bucket.at)) ||
        (h->bucket.capacity == sz && FRESH(h->bucket.at, sz * H_NB) &&
         (vf_u128)__CPROVER_OBJECT_SIZE(h->bucket.at) >= (vf_u128)sz * H_NB &&
         (vf_w_g >= sz || (H_BYTE(h->bucket.at[vf_w_g].cst) == OLD(H_BYTE(h->bucket.at[vf_w_g].cst)) &&
                           h->bucket.at[vf_w_g].n == OLD(h->bucket.at[vf_w_g].n)))))
#endif
;

/* C19 / C16: a request that can be satisfied lands; one that cannot changes nothing */
void cstl_hash_resize(struct cstl_hash * const h,
                      const size_t count, cstl_hash_func_t * const hash)
#if defined(VF_G_resize_init)
REQUIRES(FRESH(h, sizeof(struct cstl_hash)) && H_INIT(h))
#else
REQUIRES(H_OBJ(h))
REQUIRES(H_FLAT(h))
REQUIRES(vf_w_g < h->bucket.capacity && H_SWEEP(h, vf_w_g) && vf_dirty_cleaned == 0)
#endif
REQUIRES(count <= H_CAPMAX)
#if defined(VF_RESIZE_CASE) && VF_RESIZE_CASE == 1
REQUIRES(count <= h->bucket.capacity)       /* case split: no reallocation needed */
#elif defined(VF_RESIZE_CASE) && VF_RESIZE_CASE == 2
REQUIRES(count > h->bucket.capacity)        /* case split: the bucket array must grow */
#endif
ASSIGNS(h->bucket.at, h->bucket.capacity, h->bucket.rh.clean, h->bucket.rh.count, h->bucket.rh.hash,
        h->bucket.count, h->bucket.hash, h->bucket.cst, vf_dirty_cleaned)
#if !defined(VF_G_resize_init)
ASSIGNS(__CPROVER_object_whole(h->bucket.at))
#endif
FREES(h->bucket.at)
#if defined(VF_G_resize_init)
/* first resize: lands at once, or (allocation failed / count == 0) the table stays as initialised */
ENSURES(H_INIT(h) || (H_FLAT(h) && !H_PEND(h) && h->bucket.count == count &&
                      h->bucket.hash == (hash != NULL ? hash : cstl_hash_mul) &&
                      __CPROVER_rw_ok(h->bucket.at, h->bucket.capacity * H_NB)))
ENSURES(count == 0 ==> H_INIT(h))
#else
ENSURES(H_FLAT(h))
ENSURES(__CPROVER_rw_ok(h->bucket.at, h->bucket.capacity * H_NB))
/* satisfiable without allocating: the effective geometry is the requested one */
ENSURES((count >= 1 && count <= OLD(h->bucket.capacity)) ==>
        (H_EFFN(h) == count && H_EFFF(h) == (hash != NULL ? hash : O_EFFF(h))))
/* needs a bigger array: either that, or (allocation failed) the effective geometry is unchanged */
ENSURES((count > OLD(h->bucket.capacity)) ==>
        ((H_EFFN(h) == count && H_EFFF(h) == (hash != NULL ? hash : O_EFFF(h)) && h->bucket.capacity == count) ||
         (H_EFFN(h) == O_EFFN(h) && H_EFFF(h) == O_EFFF(h) && h->bucket.capacity == OLD(h->bucket.capacity) &&
          h->bucket.at == OLD(h->bucket.at))))
ENSURES(count == 0 ==> (H_EFFN(h) == O_EFFN(h) && H_EFFF(h) == O_EFFF(h)))
/* a new sweep starts from bucket 0 and sees every old bucket as dirty, every added bucket as clean */
ENSURES(vf_w_g >= h->bucket.capacity || H_SWEEP(h, vf_w_g))
#endif
ENSURES(h->count == OLD(h->count) && h->off == OLD(h->off))
;

void cstl_hash_shrink_to_fit(struct cstl_hash * const h)
REQUIRES(H_OBJ(h))
REQUIRES(H_FLAT(h))
REQUIRES(vf_w_g < h->bucket.capacity && H_SWEEP(h, vf_w_g) && vf_dirty_cleaned == 0)
ASSIGNS(h->bucket.at, h->bucket.capacity, h->bucket.rh.clean, h->bucket.rh.hash,
        h->bucket.count, h->bucket.hash,
        vf_dirty_cleaned, __CPROVER_object_whole(h->bucket.at))
FREES(h->bucket.at)
ENSURES(H_FLAT(h))
ENSURES(__CPROVER_rw_ok(h->bucket.at, h->bucket.capacity * H_NB))
ENSURES(H_EFFN(h) == O_EFFN(h) && H_EFFF(h) == O_EFFF(h))
ENSURES(h->bucket.capacity == OLD(h->bucket.capacity) || (h->bucket.capacity == H_EFFN(h) && !H_PEND(h)))
ENSURES(h->count == OLD(h->count))
;

static int cstl_hash_clear_visit(void * const e, void * const p);

/* C04: one bucket's chain.  Flat stand-in used when the bucket walk is verified:
 * the k-th call must be handed the head of bucket k; any result may come back. */
static int cstl_hash_bucket_foreach(
    const struct cstl_hash * const h, struct cstl_hash_node * n,
    cstl_visit_func_t * const visit, void * const p)
#ifndef VF_G_bucket_foreach
REQUIRES(vf_walked < h->bucket.capacity && n == h->bucket.at[vf_walked].n)
REQUIRES(!vf_walk_stopped)
ASSIGNS(vf_walked, vf_walk_last, vf_walk_stopped)
ENSURES(vf_walked == OLD(vf_walked) + 1)
ENSURES(vf_walk_last == RESULT && vf_walk_stopped == (RESULT != 0))
/* the clear visitor never asks to stop */
ENSURES(visit == cstl_hash_clear_visit ==> RESULT == 0)
#endif
;

/* C04: the bucket walk reaches every bucket that can hold an element, in order, and
 * stops at (and returns) the first non-zero result */
static int __cstl_hash_foreach(const struct cstl_hash * const h,
                               cstl_visit_func_t * const visit, void * const p)
#ifdef VF_G_foreach_walk
REQUIRES(H_OBJ(h))
#endif
REQUIRES(H_FLAT(h))
REQUIRES(vf_walked == 0 && !vf_walk_stopped)
ASSIGNS(vf_walked, vf_walk_last, vf_walk_stopped)
ENSURES(RESULT != 0 || vf_walked == H_SPAN(h))
ENSURES(vf_walked <= H_SPAN(h))
ENSURES(RESULT == (vf_walked > 0 ? vf_walk_last : 0))
ENSURES((RESULT != 0) == vf_walk_stopped)
ENSURES(visit == cstl_hash_clear_visit ==> RESULT == 0)
;

int cstl_hash_foreach(struct cstl_hash * const h,
                      cstl_visit_func_t * const visit, void * const p)
REQUIRES(H_OBJ(h))
REQUIRES(H_FLAT(h))
REQUIRES(vf_w_g < h->bucket.capacity && H_SWEEP(h, vf_w_g) && vf_dirty_cleaned == 0)
REQUIRES(vf_walked == 0 && !vf_walk_stopped)
ASSIGNS(h->bucket.rh.clean, h->bucket.count, h->bucket.hash, h->bucket.rh.hash,
        vf_dirty_cleaned, __CPROVER_object_whole(h->bucket.at),
        vf_walked, vf_walk_last, vf_walk_stopped)
ENSURES(H_FLAT(h) && !H_PEND(h))
ENSURES(RESULT != 0 || vf_walked == h->bucket.count)
ENSURES(h->bucket.count == O_EFFN(h) && h->bucket.hash == O_EFFF(h))
ENSURES(RESULT == (vf_walked > 0 ? vf_walk_last : 0))
;

int cstl_hash_foreach_const(const struct cstl_hash * const h,
                            cstl_const_visit_func_t * const visit,
                            void * const p)
REQUIRES(H_OBJ(h))
REQUIRES(H_FLAT(h))
REQUIRES(vf_walked == 0 && !vf_walk_stopped)
ASSIGNS(vf_walked, vf_walk_last, vf_walk_stopped)
ENSURES(RESULT != 0 || vf_walked == H_SPAN(h))
ENSURES(RESULT == (vf_walked > 0 ? vf_walk_last : 0))
;

/* C04: clear reaches every bucket and leaves the table as freshly initialised */
void cstl_hash_clear(struct cstl_hash * const h, cstl_xtor_func_t * const clr)
#ifdef VF_G_clear_init
REQUIRES(FRESH(h, sizeof(struct cstl_hash)) && H_INIT(h))
#else
REQUIRES(H_OBJ(h))
REQUIRES(H_FLAT(h))
#endif
REQUIRES(vf_walked == 0 && !vf_walk_stopped)
ASSIGNS(h->bucket.at, h->bucket.count, h->bucket.capacity, h->bucket.hash, h->bucket.rh.hash,
        h->bucket.cst, h->bucket.rh.count, h->bucket.rh.clean, h->count,
        vf_walked, vf_walk_last, vf_walk_stopped)
FREES(h->bucket.at)
ENSURES(H_INIT(h) && h->off == OLD(h->off))
#ifndef VF_G_clear_init
ENSURES(clr == NULL || vf_walked == O_SPAN(h))
#endif
;

#ifdef VF_G_load
float cstl_hash_load(const struct cstl_hash * const h)
REQUIRES(FRESH(h, sizeof(struct cstl_hash)))
REQUIRES(H_EFFN(h) >= 1 && H_EFFN(h) <= H_CAPMAX && h->count <= ((size_t)1 << 40))
ASSIGNS()
ENSURES(RESULT == (float)h->count / (float)H_EFFN(h))
;
#endif

/* ------------------------------------------------------------------ the code */
#include "hash.c"

#ifdef VF_G_swap
/* C03: swap exchanges the two table objects completely (bucket array, both geometries, sweep
 * position, clean stamp, element count, element offset); nothing else is written, so every element
 * stays in the chain it was in and both tables keep their invariants.  Any field values. */
#define H_FIELDS_SWAPPED(x, y) ((x)->bucket.at == OLD((y)->bucket.at) && (x)->bucket.count == OLD((y)->bucket.count) &&            \
        (x)->bucket.capacity == OLD((y)->bucket.capacity) && (x)->bucket.hash == OLD((y)->bucket.hash) &&                           \
        H_BYTE((x)->bucket.cst) == OLD(H_BYTE((y)->bucket.cst)) && (x)->bucket.rh.hash == OLD((y)->bucket.rh.hash) &&                \
        (x)->bucket.rh.count == OLD((y)->bucket.rh.count) && (x)->bucket.rh.clean == OLD((y)->bucket.rh.clean) &&                   \
        (x)->count == OLD((y)->count) && (x)->off == OLD((y)->off))
static inline void cstl_hash_swap(struct cstl_hash * const a, struct cstl_hash * const b)
REQUIRES(FRESH(a, sizeof(*a)) && FRESH(b, sizeof(*b)))
ASSIGNS(*a, *b)
ENSURES(H_FIELDS_SWAPPED(a, b) && H_FIELDS_SWAPPED(b, a))
;
void h_swap(void) { struct cstl_hash * a, * b; cstl_hash_swap(a, b); VF_END(); }
#endif

#ifdef VF_G_find_visit
/* C03, element level, one step of a lookup: an element of the chain is offered to the caller's visit
 * function exactly when its key matches (once, with the caller's private pointer); it becomes the
 * result and stops the walk exactly when it matches and is accepted (or no visit function is given);
 * otherwise the walk goes on and the result so far is kept.  That the chain walk hands over each
 * element once and stops at the first non-zero answer is the bounded part (hashb.*). */
size_t vf_uv_calls; _Bool vf_uv_bad; int vf_uv_ret; const void * vf_uv_e; void * vf_uv_p;
int vf_uvisit(const void * e, void * p)
{
    vf_uv_calls++;
    if (e != vf_uv_e || p != vf_uv_p) {
        vf_uv_bad = 1;
    }
    vf_uv_ret = nondet_int();
    return vf_uv_ret;
}
cstl_const_visit_func_t * const vf_anchor_uvisit = vf_uvisit;
#define HF(p)  ((struct cstl_hash_find_priv *)(p))
#define HFN(e) ((struct cstl_hash_node *)((char *)(e) + 8))
static int cstl_hash_find_visit(void * const e, void * const p)
REQUIRES(FRESH(p, sizeof(struct cstl_hash_find_priv)) && FRESH(HF(p)->h, sizeof(struct cstl_hash)) && HF(p)->h->off == 8)
REQUIRES(FRESH(e, 8 + sizeof(struct cstl_hash_node)) && (HF(p)->visit == NULL || HF(p)->visit == vf_uvisit))
REQUIRES(vf_uv_calls == 0 && !vf_uv_bad && vf_uv_e == e && vf_uv_p == HF(p)->p)
ASSIGNS(HF(p)->e, vf_uv_calls, vf_uv_bad, vf_uv_ret)
ENSURES(HFN(e)->key != HF(p)->k ==> (RESULT == 0 && HF(p)->e == OLD(HF(p)->e) && vf_uv_calls == 0))
ENSURES((HFN(e)->key == HF(p)->k && HF(p)->visit == NULL) ==> (RESULT == 1 && HF(p)->e == e && vf_uv_calls == 0))
ENSURES((HFN(e)->key == HF(p)->k && HF(p)->visit != NULL) ==> (vf_uv_calls == 1 && !vf_uv_bad &&
         (vf_uv_ret != 0 ? (RESULT == 1 && HF(p)->e == e) : (RESULT == 0 && HF(p)->e == OLD(HF(p)->e)))))
;
/* one step of an erase: stops exactly at the object passed (pointer identity, not key), otherwise
 * advances the link cursor to the visited node's next field */
#define HE(p)  ((struct cstl_hash_erase_priv *)(p))
static int cstl_hash_erase_visit(void * const e, void * const p)
REQUIRES(FRESH(p, sizeof(struct cstl_hash_erase_priv)) && FRESH(HE(p)->n, sizeof(struct cstl_hash_node *)) && FRESH(*HE(p)->n, sizeof(struct cstl_hash_node)))
ASSIGNS(HE(p)->n)
ENSURES(HE(p)->e == e ? (RESULT == 1 && HE(p)->n == OLD(HE(p)->n)) : (RESULT == 0 && HE(p)->n == &(*OLD(HE(p)->n))->next))
;
#endif


/* ------------------------------------------------------------------ harnesses */
#ifndef VF_NATIVE

void h_div(void)
{
    size_t k = VF_IN_SIZE(k), m = VF_IN_SIZE(m);
    cstl_hash_div(k, m);
    VF_END();
}

void h_mul(void)
{
    size_t k = VF_IN_SIZE(k), m = VF_IN_SIZE(m);
    cstl_hash_mul(k, m);
    VF_END();
}

void h_get_bucket_raw(void)
{
    struct cstl_hash * h;
    H_WIT_IN();
    size_t k = VF_IN_SIZE(k), n = VF_IN_SIZE(n);
    cstl_hash_func_t * f = nondet_bool() ? vf_hash_stub1 : vf_hash_stub2;
    __cstl_hash_get_bucket(h, k, f, n);
    VF_END();
}

void h_clean_bucket(void)
{
    struct cstl_hash * h;
    H_WIT_IN();
    struct cstl_hash_bucket * bk;
    VF_IN_SIZE(g); VF_IN_SIZE(len);
    cstl_clean_bucket(h, bk);
    VF_END();
}

/* Bounded check of cstl_clean_bucket against its flat contract: the same clauses asserted
 * around the real body, on a bucket holding a chain of exactly VF_CHAIN nodes (the chain loop
 * is unwound; DFCC 6.11 cannot track the loop's block-local variables, so no --enforce here). */
struct cstl_hash_node vf_chain_nodes[3];
void h_clean_bucket_b(void)
{
    struct cstl_hash hh, * h = &hh;
    struct cstl_hash_bucket * bk;
    size_t j = nondet_size_t();
    _Bool old_gb, old_bkb;
    struct cstl_hash before;
    int i;
    VF_IN_SIZE(g); VF_IN_SIZE(capacity);
    __CPROVER_assume(vf_w_capacity >= 1 && vf_w_capacity <= H_CAPMAX && h->bucket.capacity == vf_w_capacity);
    h->bucket.at = malloc(vf_w_capacity * H_NB);
    __CPROVER_assume(h->bucket.at != NULL);
    __CPROVER_assume(H_FLAT(h) && H_PEND(h) && h->bucket.hash == vf_hash_stub1 && h->bucket.rh.hash == vf_hash_stub2);
    __CPROVER_assume(j < vf_w_capacity && vf_w_g < vf_w_capacity && H_CANON(h->bucket.cst));
    bk = &h->bucket.at[j];
    __CPROVER_assume(H_CANON(bk->cst));
    bk->n = VF_CHAIN > 0 ? &vf_chain_nodes[0] : NULL;
    for (i = 0; i < VF_CHAIN; i++) {
        vf_chain_nodes[i].next = i + 1 < VF_CHAIN ? &vf_chain_nodes[i + 1] : NULL;
    }
    old_gb = h->bucket.at[vf_w_g].cst;
    old_bkb = bk->cst;
    before = *h;
    vf_dirty_cleaned = 0; vf_hash_calls1 = 0; vf_hash_calls2 = 0;
    cstl_clean_bucket(h, bk);
    VF_ASSERT(H_BYTE(bk->cst) == H_BYTE(h->bucket.cst) && H_CANON(bk->cst), "clean_bucket: the bucket is clean afterwards (well-formed stamp)");
    VF_ASSERT(j == vf_w_g || !H_CANON(old_gb) || (h->bucket.at[vf_w_g].cst == old_gb && H_CANON(h->bucket.at[vf_w_g].cst)), "clean_bucket: no other stamp changes");
    VF_ASSERT(vf_hash_calls1 == 0 && vf_hash_calls2 == (old_bkb != h->bucket.cst ? VF_CHAIN : 0),
              "clean_bucket: one consultation of the pending function per relocated node, none for a clean bucket");
    VF_ASSERT(before.bucket.at == h->bucket.at && before.bucket.count == h->bucket.count && before.bucket.capacity == h->bucket.capacity &&
              before.bucket.hash == h->bucket.hash && before.bucket.rh.hash == h->bucket.rh.hash && before.bucket.rh.count == h->bucket.rh.count &&
              before.bucket.rh.clean == h->bucket.rh.clean && before.count == h->count && before.off == h->off &&
              H_BYTE(before.bucket.cst) == H_BYTE(h->bucket.cst), "clean_bucket: the table header is not written");
    VF_REACH(old_bkb != h->bucket.cst, "dirty bucket cleaned");
    VF_END();
}

void h_rehash_n(void)
{
    struct cstl_hash * h;
    H_WIT_IN();
    size_t n = VF_IN_SIZE(n);
    VF_IN_SIZE(g);
    __cstl_hash_rehash(h, n);
    VF_END();
}

void h_rehash(void)
{
    struct cstl_hash * h;
    H_WIT_IN();
    VF_IN_SIZE(g);
    cstl_hash_rehash(h);
    VF_END();
}

void h_get_bucket(void)
{
    struct cstl_hash * h;
    H_WIT_IN();
    size_t k = VF_IN_SIZE(k);
    VF_IN_SIZE(g);
    cstl_hash_get_bucket(h, k);
    VF_END();
}

void * nondet_ptr(void);
#ifdef VF_G_find_visit
void h_find_visit(void) { void * e, * p; vf_uv_e = nondet_ptr(); vf_uv_p = nondet_ptr(); cstl_hash_find_visit(e, p); VF_END(); }
void h_erase_visit(void) { void * e = nondet_ptr(), * p; cstl_hash_erase_visit(e, p); VF_END(); }
#endif
#ifdef VF_G_insert
void h_insert(void)
{
    struct cstl_hash * h; void * e;
    H_WIT_IN();
    size_t k = VF_IN_SIZE(k);
    VF_IN_SIZE(g);
    cstl_hash_insert(h, k, e);
    VF_END();
}
#endif

#define H_KEEP()  do { vf_keep_off = vf_w_g * H_NB; vf_keep_len = H_NB; } while (0)

void h_set_capacity(void)
{
    struct cstl_hash * h;
    H_WIT_IN();
    size_t n = VF_IN_SIZE(n);
    VF_IN_SIZE(g);
    H_KEEP();
    __cstl_hash_set_capacity(h, n);
    VF_END();
}

void h_resize(void)
{
    struct cstl_hash * h;
    H_WIT_IN();
    size_t n = VF_IN_SIZE(n);
    cstl_hash_func_t * f;
    VF_IN_INT(fsel);
    f = vf_w_fsel == 0 ? NULL : (vf_w_fsel == 1 ? vf_hash_stub1 : (vf_w_fsel == 2 ? vf_hash_stub2 : vf_hash_stub3));
    VF_IN_SIZE(g);
    H_KEEP();
    cstl_hash_resize(h, n, f);
    VF_END();
}

void h_shrink(void)
{
    struct cstl_hash * h;
    H_WIT_IN();
    VF_IN_SIZE(g);
    H_KEEP();
    cstl_hash_shrink_to_fit(h);
    VF_END();
}

int vf_visit_any(void * e, void * p) { (void)e; (void)p; return nondet_int(); }
int vf_cvisit_any(const void * e, void * p) { (void)e; (void)p; return nondet_int(); }
void vf_clr_any(void * e, void * p) { (void)e; (void)p; }

void h_foreach_walk(void)
{
    struct cstl_hash * h;
    H_WIT_IN();
    void * p;
    __cstl_hash_foreach(h, vf_visit_any, p);
    VF_END();
}

void h_foreach(void)
{
    struct cstl_hash * h;
    H_WIT_IN();
    void * p;
    VF_IN_SIZE(g);
    cstl_hash_foreach(h, vf_visit_any, p);
    VF_END();
}

void h_foreach_const(void)
{
    struct cstl_hash * h;
    H_WIT_IN();
    void * p;
    cstl_hash_foreach_const(h, vf_cvisit_any, p);
    VF_END();
}

void h_clear(void)
{
    struct cstl_hash * h;
    H_WIT_IN();
    cstl_xtor_func_t * c = nondet_bool() ? vf_clr_any : NULL;
    cstl_hash_clear(h, c);
    VF_END();
}

#ifdef VF_G_load
void h_load(void)
{
    struct cstl_hash * h;
    H_WIT_IN();
    cstl_hash_load(h);
    VF_END();
}
#endif

#else /* VF_NATIVE ---------------------------------------------------------------------
       * Native replay: rebuild the pre-state named by the witness inputs with real malloc,
       * call the real function from /repo/src/hash.c, evaluate the same postcondition. */

struct vf_elem { int id; struct cstl_hash_node hn; };

static struct cstl_hash * vf_native_table(void)
{
    struct cstl_hash * h = calloc(1, sizeof(*h));
    size_t i;
    VF_IN_SIZE(capacity); VF_IN_SIZE(count); VF_IN_BOOL(pending); VF_IN_SIZE(rh_count);
    VF_IN_SIZE(rh_clean); VF_IN_SIZE(size); VF_IN_BOOL(cst); VF_IN_SIZE(g);
    cstl_hash_init(h, offsetof(struct vf_elem, hn));
    VF_ASSUME(vf_w_capacity >= 1 && vf_w_capacity <= ((size_t)1 << 27));
    VF_ASSUME(vf_w_count >= 1 && vf_w_count <= vf_w_capacity);
    h->bucket.at = calloc(vf_w_capacity, sizeof(*h->bucket.at));
    VF_ASSUME(h->bucket.at != NULL);
    h->bucket.capacity = vf_w_capacity;
    h->bucket.count = vf_w_count;
    h->bucket.hash = cstl_hash_div;
    h->bucket.cst = vf_w_cst;
    h->count = 0;
    for (i = 0; i < vf_w_capacity; i++) {
        h->bucket.at[i].cst = vf_w_cst;
    }
    if (vf_w_pending) {
        VF_ASSUME(vf_w_rh_count >= 1 && vf_w_rh_count <= vf_w_capacity && vf_w_rh_clean <= vf_w_count);
        h->bucket.rh.hash = cstl_hash_mul;
        h->bucket.rh.count = vf_w_rh_count;
        h->bucket.rh.clean = vf_w_rh_clean;
        for (i = vf_w_rh_clean; i < vf_w_count; i++) {
            h->bucket.at[i].cst = !vf_w_cst;      /* not yet swept: dirty */
        }
    }
    return h;
}

static size_t vf_nat_visits;
static int vf_nat_count_visit(const void * e, void * p) { (void)e; (void)p; vf_nat_visits++; return 0; }
static void vf_nat_count_clr(void * e, void * p) { (void)e; (void)p; vf_nat_visits++; }

/* one element in every bucket that may legitimately hold one (placed directly: this is the
 * internal state the counterexample describes; elements in [count, rh.count) are the ones a
 * pending grow has already relocated) */
static struct vf_elem * vf_native_fill_span(struct cstl_hash * h, size_t * n)
{
    const size_t span = H_SPAN(h);
    struct vf_elem * es = calloc(span, sizeof(*es));
    size_t i;
    for (i = 0; i < span; i++) {
        es[i].id = (int)i;
        es[i].hn.key = i;
        es[i].hn.next = NULL;
        h->bucket.at[i].n = &es[i].hn;
    }
    h->count = span;
    *n = span;
    return es;
}

void h_foreach_walk(void)
{
    struct cstl_hash * h = vf_native_table();
    size_t n;
    struct vf_elem * es = vf_native_fill_span(h, &n);
    vf_nat_visits = 0;
    cstl_hash_foreach_const(h, vf_nat_count_visit, NULL);
    printf("elements in table: %zu, visited by cstl_hash_foreach_const: %zu\n", n, vf_nat_visits);
    VF_NCHECK(vf_nat_visits == n, "every live element visited exactly once (bucket walk covers the span)");
    free(es);
}

void h_clear(void)
{
    struct cstl_hash * h = vf_native_table();
    size_t n;
    struct vf_elem * es = vf_native_fill_span(h, &n);
    const size_t off = h->off;
    vf_nat_visits = 0;
    cstl_hash_clear(h, vf_nat_count_clr);
    printf("elements in table: %zu, handed to the clear callback: %zu\n", n, vf_nat_visits);
    VF_NCHECK(vf_nat_visits == n, "clear hands over every live element");
    VF_NCHECK(H_INIT(h) && h->off == off, "table equals its freshly initialised state after clear");
    free(es);
}

void h_set_capacity(void)
{
    struct cstl_hash * h = vf_native_table();
    size_t n = VF_IN_SIZE(n);
    __cstl_hash_set_capacity(h, n);
    printf("requested %zu buckets: capacity=%zu usable bytes=%zu\n", n, h->bucket.capacity,
           h->bucket.at ? malloc_usable_size(h->bucket.at) : 0);
    VF_NCHECK(h->bucket.at != NULL && (vf_u128)malloc_usable_size(h->bucket.at) >= (vf_u128)h->bucket.capacity * H_NB,
              "bucket array holds `capacity` buckets");
}

void h_resize(void)
{
    struct cstl_hash * h = vf_native_table();
    size_t n = VF_IN_SIZE(n);
    cstl_hash_func_t * f;
    cstl_hash_func_t * const eff_f = H_EFFF(h);
    const size_t cap = h->bucket.capacity;
    VF_IN_INT(fsel);
    f = vf_w_fsel == 0 ? NULL : (vf_w_fsel == 1 ? vf_hash_stub1 : (vf_w_fsel == 2 ? vf_hash_stub2 : vf_hash_stub3));
    cstl_hash_resize(h, n, f);
    printf("request (%zu, f%d) on count=%zu pending=%d rh.count=%zu: effective count now %zu\n",
           n, vf_w_fsel, vf_w_count, (int)vf_w_pending, vf_w_rh_count, (size_t)H_EFFN(h));
    if (n >= 1 && n <= cap) {
        VF_NCHECK(H_EFFN(h) == n && H_EFFF(h) == (f != NULL ? f : eff_f),
                  "a satisfiable resize request lands (effective geometry == request)");
    }
    VF_NCHECK(H_FLAT(h), "flat representation invariant after resize");
}

struct vf_harness { const char * name; void (*fn)(void); };
struct vf_harness vf_harnesses[] = {
    { "h_foreach_walk", h_foreach_walk }, { "h_foreach_const", h_foreach_walk }, { "h_clear", h_clear },
    { "h_set_capacity", h_set_capacity }, { "h_resize", h_resize },
    { NULL, NULL }
};

#endif /* VF_NATIVE */
