/* Contracts for /repo/src/slist.c (C13, C15).
 *
 * S groups (step contracts, DFCC): the two loop-free primitives __cstl_slist_insert_after and
 *   __cstl_slist_erase_after on a symbolic neighbourhood, one variant per aliasing case (in the
 *   middle / touching the tail node, where sl->t must move / at the head sentinel).
 * B groups (bounded): the whole operations executed on concrete lists of every length 0..VF_MAXLEN,
 *   the reference sequence kept in an array; after every operation the representation invariant
 *   is checked, the chain is compared with the reference, and a spare element is pushed at the back
 *   to show that the tail pointer is the true last node.
 *   The same harness text compiles natively (-DVF_NATIVE) for replay.
 *
 * The container-of casts of slist.c are normalised in the scratch copy (vflib/prep.py).
 */
#include "vf.h"
#include <stdlib.h>
#include "slist.c"

#ifndef VF_MAXLEN
#define VF_MAXLEN 5
#endif

struct vf_el { int key; int id; struct cstl_slist_node n; int poisoned; };
#define VF_POOL 13
static struct vf_el vf_pool[VF_POOL];
#define NODE(i)   (&vf_pool[i].n)
#define ELEM(i)   ((void *)&vf_pool[i])
/* pool usage: 0..5 first list, 6..8 second list, 10 and 12 extra elements of the harness,
 * 11 the spare element the checker appends after every operation */
#define VF_X1     10
#define VF_SPARE  11
#define VF_X2     12

/* ------------------------------------------------------------------ S: step contracts */
#ifdef VF_STEP
#if VF_STEP == 1
/* insert nn after a node in the middle (in is neither the head sentinel nor the tail) */
static void __cstl_slist_insert_after(struct cstl_slist * const sl, struct cstl_slist_node * const in, struct cstl_slist_node * const nn)
REQUIRES(FRESH(sl, sizeof(*sl)) && FRESH(in, sizeof(*in)) && FRESH(nn, sizeof(*nn)) && FRESH(sl->t, sizeof(*sl->t)))
REQUIRES(sl->t->n == NULL && sl->count >= 2 && sl->count < SIZE_MAX)
ASSIGNS(nn->n, in->n, sl->count)
ENSURES(in->n == nn && nn->n == OLD(in->n) && sl->count == OLD(sl->count) + 1)
ENSURES(sl->t == OLD(sl->t) && sl->t->n == NULL && sl->h.n == OLD(sl->h.n))
;
#elif VF_STEP == 2
/* insert nn after the tail node: sl->t must move to nn */
static void __cstl_slist_insert_after(struct cstl_slist * const sl, struct cstl_slist_node * const in, struct cstl_slist_node * const nn)
REQUIRES(FRESH(sl, sizeof(*sl)) && FRESH(in, sizeof(*in)) && FRESH(nn, sizeof(*nn)))
REQUIRES(sl->t == in && in->n == NULL && sl->count >= 1 && sl->count < SIZE_MAX)
ASSIGNS(nn->n, in->n, sl->t, sl->count)
ENSURES(in->n == nn && nn->n == NULL && sl->t == nn && sl->count == OLD(sl->count) + 1 && sl->h.n == OLD(sl->h.n))
;
#elif VF_STEP == 3
/* insert into the empty list: in is the head sentinel and the tail at once, see h_step (explicit object) */
#elif VF_STEP == 4
/* insert after the head sentinel of a non-empty list (push_front): the tail stays */
static void __cstl_slist_insert_after(struct cstl_slist * const sl, struct cstl_slist_node * const in, struct cstl_slist_node * const nn)
REQUIRES(FRESH(sl, sizeof(*sl)) && FRESH(nn, sizeof(*nn)) && FRESH(sl->t, sizeof(*sl->t)) && in == &sl->h)
REQUIRES(sl->t->n == NULL && sl->h.n != NULL && sl->count >= 1 && sl->count < SIZE_MAX)
ASSIGNS(nn->n, sl->h.n, sl->count)
ENSURES(sl->h.n == nn && nn->n == OLD(sl->h.n) && sl->count == OLD(sl->count) + 1 && sl->t == OLD(sl->t) && sl->t->n == NULL)
;
#elif VF_STEP == 5
/* erase the successor of e, both in the middle (the erased node is not the tail) */
static struct cstl_slist_node * __cstl_slist_erase_after(struct cstl_slist * const sl, struct cstl_slist_node * const e)
REQUIRES(FRESH(sl, sizeof(*sl)) && FRESH(e, sizeof(*e)) && FRESH(e->n, sizeof(*e)) && FRESH(sl->t, sizeof(*sl->t)))
REQUIRES(sl->t->n == NULL && e->n->n != NULL && sl->count >= 3)
ASSIGNS(e->n, sl->count)
ENSURES(RESULT == OLD(e->n) && e->n == OLD(e->n->n) && RESULT->n == OLD(e->n->n) && sl->count == OLD(sl->count) - 1)
ENSURES(sl->t == OLD(sl->t) && sl->t->n == NULL && sl->h.n == OLD(sl->h.n))
;
#elif VF_STEP == 6
/* erase the tail node: sl->t must move back to e */
static struct cstl_slist_node * __cstl_slist_erase_after(struct cstl_slist * const sl, struct cstl_slist_node * const e)
REQUIRES(FRESH(sl, sizeof(*sl)) && FRESH(e, sizeof(*e)) && FRESH(e->n, sizeof(*e)))
REQUIRES(sl->t == e->n && e->n->n == NULL && sl->count >= 2)
ASSIGNS(e->n, sl->t, sl->count)
ENSURES(RESULT == OLD(e->n) && e->n == NULL && sl->t == e && sl->count == OLD(sl->count) - 1 && sl->h.n == OLD(sl->h.n))
;
#elif VF_STEP == 7
/* erase the first of at least two nodes (pop_front): the tail stays */
static struct cstl_slist_node * __cstl_slist_erase_after(struct cstl_slist * const sl, struct cstl_slist_node * const e)
REQUIRES(FRESH(sl, sizeof(*sl)) && FRESH(sl->h.n, sizeof(*e)) && FRESH(sl->t, sizeof(*sl->t)) && e == &sl->h)
REQUIRES(sl->t->n == NULL && sl->h.n->n != NULL && sl->count >= 2)
ASSIGNS(sl->h.n, sl->count)
ENSURES(RESULT == OLD(sl->h.n) && sl->h.n == OLD(sl->h.n->n) && RESULT->n == OLD(sl->h.n->n) && sl->count == OLD(sl->count) - 1)
ENSURES(sl->t == OLD(sl->t) && sl->t->n == NULL)
;
#elif VF_STEP == 8
/* erase the only node: the list becomes the freshly initialised one, see h_step (explicit object) */
#endif
#ifndef VF_NATIVE
void h_step(void)
{
    struct cstl_slist * sl; struct cstl_slist_node * e, * nn;
#if VF_STEP == 3
    struct cstl_slist ll; struct cstl_slist_node n1;
    ll.h.n = NULL; ll.t = &ll.h; ll.count = 0;
    __cstl_slist_insert_after(&ll, &ll.h, &n1);
    VF_ASSERT(ll.h.n == &n1 && n1.n == NULL && ll.t == &n1 && ll.count == 1, "insert into the empty list: the node is first and last, the tail moved off the sentinel");
#elif VF_STEP == 8
    struct cstl_slist ll; struct cstl_slist_node n1, * r;
    ll.h.n = &n1; n1.n = NULL; ll.t = &n1; ll.count = 1;
    r = __cstl_slist_erase_after(&ll, &ll.h);
    VF_ASSERT(r == &n1 && ll.h.n == NULL && ll.t == &ll.h && ll.count == 0, "erase the only node: the list equals a freshly initialised one, the tail is the sentinel again");
#elif VF_STEP <= 4
    __cstl_slist_insert_after(sl, e, nn);
#else
    __cstl_slist_erase_after(sl, e);
#endif
    VF_END();
}
#endif
#endif


/* ------------------------------------------------------------------ S: concat / swap on chain neighbourhoods
 * A chain with k nodes is its head, its first node F and last node T (F == T for k == 1, F -> T for
 * k == 2); for k >= 3 the unknown middle is a sentinel node (F->n = &M) that must stay untouched and
 * the count is any value >= 3.  The tail pointer is the head sentinel for k == 0, else the last node. */
#if defined(VF_STEP2) && !defined(VF_NATIVE)
struct vf_chain { struct cstl_slist l; struct cstl_slist_node F, T, M; int k; size_t count; };
static void vf_chain_make(struct vf_chain * c, int k, size_t big)
{
    c->k = k;
    c->l.off = 8;
    c->M.n = &c->M;                 /* poison: a self-link no operation creates */
    c->F.n = c->T.n = NULL;
    if (k == 0) { c->l.h.n = NULL; c->l.t = &c->l.h; c->count = 0; }
    else if (k == 1) { c->l.h.n = &c->F; c->l.t = &c->F; c->count = 1; }
    else {
        c->l.h.n = &c->F; c->l.t = &c->T;
        if (k == 2) { c->F.n = &c->T; c->count = 2; } else { c->F.n = &c->M; c->count = big; }
    }
    c->l.count = c->count;
}
#define CFIRST(c) ((c)->k == 0 ? NULL : &(c)->F)
#define CLAST(c)  ((c)->k == 0 ? NULL : ((c)->k == 1 ? &(c)->F : &(c)->T))
static void vf_chain_inner(struct vf_chain * c)
{
    VF_ASSERT(c->M.n == &c->M, "slist step: the unknown middle of a chain is not touched");
    if (c->k >= 3) { VF_ASSERT(c->F.n == &c->M, "slist step: the inner link of the first node is kept"); }
    else if (c->k == 2) { VF_ASSERT(c->F.n == &c->T, "slist step: the link between the two nodes is kept"); }
}
/* the chain of `c` hangs under head `h`: head link, tail pointer = true last (or the head sentinel), count */
static void vf_chain_under(struct vf_chain * c, struct cstl_slist * h, size_t count)
{
    VF_ASSERT(h->count == count, "slist step: count");
    VF_ASSERT(h->h.n == CFIRST(c), "slist step: the head links the first node (or nothing)");
    VF_ASSERT(h->t == (c->k == 0 ? &h->h : CLAST(c)), "slist step: the tail pointer is the last node, or the list's OWN head sentinel when empty");
    VF_ASSERT(h->t->n == NULL, "slist step: nothing follows the tail");
}
void h_step2(void)
{
    int kd, ks;
    for (kd = 0; kd <= 3; kd++) {
        for (ks = 0; ks <= 3; ks++) {
            struct vf_chain d, s;
            size_t bd = nondet_size_t(), bs = nondet_size_t();
            __CPROVER_assume(bd >= 3 && bs >= 3 && bd <= SIZE_MAX / 2 && bs <= SIZE_MAX / 2);
            vf_chain_make(&d, kd, bd);
            vf_chain_make(&s, ks, bs);
#if VF_STEP2 == 2
            s.l.off = 24;            /* lists of different element layouts: swap exchanges the offsets too */
#endif
#if VF_STEP2 == 1
            cstl_slist_concat(&d.l, &s.l);
            vf_chain_inner(&d); vf_chain_inner(&s);
            VF_ASSERT(d.l.off == 8 && s.l.off == 8, "concat: offsets kept");
            if (ks == 0) {
                vf_chain_under(&d, &d.l, d.count);
                vf_chain_under(&s, &s.l, 0);
            } else {
                VF_ASSERT(d.l.count == d.count + s.count, "concat: the destination has all the elements");
                VF_ASSERT(s.l.count == 0 && s.l.h.n == NULL && s.l.t == &s.l.h, "concat: the source is left empty and usable");
                VF_ASSERT(d.l.h.n == (kd == 0 ? CFIRST(&s) : CFIRST(&d)), "concat: the first element is the destination's first (or the source's, if it was empty)");
                VF_ASSERT(d.l.t == CLAST(&s) && d.l.t->n == NULL, "concat: the tail is the source's last element and ends the chain");
                if (kd > 0) {
                    VF_ASSERT(CLAST(&d)->n == CFIRST(&s), "concat: the source's first element follows the destination's last");
                }
            }
#else
            cstl_slist_swap(&d.l, &s.l);
            vf_chain_inner(&d); vf_chain_inner(&s);
            vf_chain_under(&s, &d.l, s.count);
            vf_chain_under(&d, &s.l, d.count);
            VF_ASSERT(d.l.off == 24 && s.l.off == 8, "swap: offsets exchanged");
#endif
            VF_REACH(kd == 3 && ks == 3, "largest neighbourhood reached");
        }
    }
    VF_END();
}
#endif


/* ------------------------------------------------------------------ P: the loop-free public wrappers */
#if defined(VF_G_wrap) && !defined(VF_NATIVE)
struct cstl_slist * vf_wl; struct cstl_slist_node * vf_wp, * vf_wn; size_t vf_wcalls_i, vf_wcalls_e;
static void __cstl_slist_insert_after(struct cstl_slist * const sl, struct cstl_slist_node * const in, struct cstl_slist_node * const nn)
REQUIRES(sl == vf_wl && in == vf_wp && nn == vf_wn)
ASSIGNS(vf_wcalls_i)
ENSURES(vf_wcalls_i == OLD(vf_wcalls_i) + 1)
;
static struct cstl_slist_node * __cstl_slist_erase_after(struct cstl_slist * const sl, struct cstl_slist_node * const e)
REQUIRES(sl == vf_wl && e == vf_wp)
ASSIGNS(vf_wcalls_e)
ENSURES(vf_wcalls_e == OLD(vf_wcalls_e) + 1 && RESULT == vf_wn)
;
void h_wrap(void)
{
    static struct cstl_slist l; static struct { long a, b; struct cstl_slist_node n; } E, PE, F, B;
    int op = nondet_int(); void * r;
    l.off = 16; l.count = nondet_size_t();
    l.h.n = l.count ? &F.n : NULL; l.t = l.count ? &B.n : &l.h;
    vf_wl = &l; vf_wcalls_i = vf_wcalls_e = 0;
    __CPROVER_assume(op >= 0 && op <= 6);
    switch (op) {
    case 0: vf_wp = &l.h; vf_wn = &E.n; cstl_slist_push_front(&l, &E); VF_ASSERT(vf_wcalls_i == 1 && vf_wcalls_e == 0, "push_front: one insert after the head sentinel"); break;
    case 1: vf_wp = l.t; vf_wn = &E.n; cstl_slist_push_back(&l, &E); VF_ASSERT(vf_wcalls_i == 1 && vf_wcalls_e == 0, "push_back: one insert after the tail (the true last node, or the head sentinel when empty)"); break;
    case 2: vf_wp = &PE.n; vf_wn = &E.n; cstl_slist_insert_after(&l, &PE, &E); VF_ASSERT(vf_wcalls_i == 1 && vf_wcalls_e == 0, "insert_after: one insert after the node of the given element"); break;
    case 3: vf_wp = &PE.n; vf_wn = &E.n; r = cstl_slist_erase_after(&l, &PE); VF_ASSERT(vf_wcalls_e == 1 && vf_wcalls_i == 0 && r == (void *)&E, "erase_after: the element after the given one is erased and returned"); break;
    case 4: vf_wp = &l.h; vf_wn = &F.n; r = cstl_slist_pop_front(&l);
            VF_ASSERT(l.count ? (vf_wcalls_e == 1 && r == (void *)&F) : (vf_wcalls_e == 0 && r == NULL), "pop_front: the first element is erased and returned; NULL and no erase on an empty list"); break;
    case 5: r = cstl_slist_front(&l); VF_ASSERT(r == (l.count ? (void *)&F : NULL) && vf_wcalls_e == 0 && vf_wcalls_i == 0, "front: the first element or NULL"); break;
    case 6: r = cstl_slist_back(&l); VF_ASSERT(r == (l.count ? (void *)&B : NULL) && vf_wcalls_e == 0 && vf_wcalls_i == 0, "back: the true last element or NULL"); break;
    }
    VF_REACH(op == 6, "last wrapper reached");
    VF_END();
}
#endif

/* ------------------------------------------------------------------ B: reference-sequence checks */
static int vf_cmp_key(const void * a, const void * b, void * p)
{
    VF_ASSERT(p == VF_CMP_PRIV, "the comparison function is handed the caller's private pointer");
    return vf_signmag(((const struct vf_el *)a)->key > ((const struct vf_el *)b)->key, ((const struct vf_el *)a)->key < ((const struct vf_el *)b)->key);
}

/* representation invariant and equality with ref[0..n) */
static void vf_check_inv(struct cstl_slist * l, const int * ref, int n)
{
    struct cstl_slist_node * c, * last;
    int k;
    VF_ASSERT(cstl_slist_size(l) == (size_t)n, "slist: size equals the reference length");
    VF_ASSERT((l->count == 0) == (l->t == &l->h), "slist: count == 0 <=> the tail is the head sentinel");
    VF_ASSERT((l->count == 0) == (l->h.n == NULL), "slist: count == 0 <=> the head has no successor");
    VF_ASSERT(l->t == (n > 0 ? NODE(ref[n - 1]) : &l->h), "slist: the tail pointer is the last node of the reference sequence");
    VF_ASSERT(l->t->n == NULL, "slist: the tail node has no successor");
    for (c = l->h.n, last = &l->h, k = 0; k < n; k++) {
        VF_ASSERT(c == NODE(ref[k]), "slist: traversal equals the reference sequence");
        last = NODE(ref[k]);       /* continue along the known address (equal when the assertion holds) */
        c = last->n;
    }
    VF_ASSERT(c == NULL, "slist: traversal ends after exactly size nodes");
    VF_ASSERT(l->t == last, "slist: the tail pointer is the last node reached from the head");
    VF_ASSERT(cstl_slist_front(l) == (n > 0 ? ELEM(ref[0]) : NULL), "slist: front agrees");
    VF_ASSERT(cstl_slist_back(l) == (n > 0 ? ELEM(ref[n - 1]) : NULL), "slist: back agrees");
}

/* invariant, then: push_back of the spare element appends after the true last element; the spare is
 * taken out again by the harness itself (not by the library), restoring the state just checked */
static void vf_check_list(struct cstl_slist * l, const int * ref, int n, const char * what)
{
    int r2[VF_POOL], k;
    struct cstl_slist_node * const last = n > 0 ? NODE(ref[n - 1]) : &l->h;
    (void)what;
    vf_check_inv(l, ref, n);
    for (k = 0; k < n; k++) r2[k] = ref[k];
    r2[n] = VF_SPARE;
    vf_pool[VF_SPARE].id = VF_SPARE; vf_pool[VF_SPARE].poisoned = 0;
    cstl_slist_push_back(l, ELEM(VF_SPARE));
    VF_ASSERT(last->n == NODE(VF_SPARE), "slist: push_back links the new element after the true last element");
    vf_check_inv(l, r2, n + 1);
    last->n = NULL; l->t = last; l->count = (size_t)n;
    NODE(VF_SPARE)->n = NULL;
}

static void vf_build(struct cstl_slist * l, int * ref, int n, int first_id)
{
    int k;
    cstl_slist_init(l, offsetof(struct vf_el, n));
    for (k = 0; k < n; k++) {
        vf_pool[first_id + k].id = first_id + k;
        vf_pool[first_id + k].poisoned = 0;
        cstl_slist_push_back(l, ELEM(first_id + k));
        ref[k] = first_id + k;
    }
}

/* a node no list ever contains: poisoned elements point here, so that a library which followed the
 * link of an element after its callback returned would hand this one to the callback */
static struct vf_el vf_trap;

static int vf_index_of(const void * e)
{
    int i, idx = -1;
    for (i = 0; i < VF_POOL; i++) if (e == ELEM(i)) idx = i;
    return idx;
}

static int vf_member[VF_POOL];      /* the elements that are in the list handed to clear / foreach */
static int vf_visit_log[VF_POOL], vf_visit_n, vf_visit_stop_at;
static int vf_visit(void * e, void * p)
{
    const int idx = vf_index_of(e);
    (void)p;
    VF_ASSERT(idx >= 0 && vf_member[idx], "foreach: the callback is given elements of the list only");
    if (idx < 0) return -1;
    vf_visit_log[vf_visit_n] = idx;
    vf_visit_n++;
    /* every visit from the stop position on would return a different non-zero value */
    return vf_visit_n - 1 >= vf_visit_stop_at ? VF_STOPVAL(vf_visit_n - 1) : 0;
}
static int vf_clr_n;
static void vf_clr(void * e, void * p)
{
    const int idx = vf_index_of(e);
    VF_ASSERT(p == NULL, "clear: the private pointer of the callback is NULL");
    VF_ASSERT(idx >= 0 && vf_member[idx], "clear: the callback is given elements of the list only");
    if (idx < 0) return;
    VF_ASSERT(!vf_pool[idx].poisoned, "clear: each element is handed over at most once");
    vf_pool[idx].poisoned = 1;
    vf_pool[idx].n.n = &vf_trap.n;      /* the callback may free / reuse the memory */
    vf_clr_n++;
}

#if defined(VF_B) && VF_B == 1
/* push_front / push_back / pop_front / insert_after / erase_after / reverse on every list of length 0..VF_MAXLEN */
void h_b_basic(void)
{
    int len, pos, k;
    for (len = 0; len <= VF_MAXLEN; len++) {
        struct cstl_slist l; int ref[VF_POOL]; int n;
        VF_SCEN(len > 0);
        vf_build(&l, ref, len, 0); n = len;
        vf_check_list(&l, ref, n, "build");
        /* push_front / push_back */
        cstl_slist_push_front(&l, ELEM(VF_X1));
        for (k = n; k > 0; k--) ref[k] = ref[k - 1];
        ref[0] = VF_X1; n++;
        vf_check_list(&l, ref, n, "push_front");
        cstl_slist_push_back(&l, ELEM(VF_X2));
        ref[n++] = VF_X2;
        vf_check_list(&l, ref, n, "push_back");
        /* pop_front until empty (pop_front on the EMPTY list: group slist.b.pop_empty) */
        while (n > 0) {
            void * e = cstl_slist_pop_front(&l);
            VF_ASSERT(e == ELEM(ref[0]), "slist: pop_front returns the first element");
            for (k = 0; k + 1 < n; k++) ref[k] = ref[k + 1];
            n--;
            vf_check_list(&l, ref, n, "pop_front");
        }
        /* the emptied list is usable: both pushes */
        cstl_slist_push_back(&l, ELEM(VF_X1)); ref[0] = VF_X1;
        vf_check_list(&l, ref, 1, "push_back into the emptied list");
        VF_ASSERT(cstl_slist_pop_front(&l) == ELEM(VF_X1), "slist: pop_front returns the only element");
        vf_check_list(&l, ref, 0, "pop_front of the only element");
        cstl_slist_push_front(&l, ELEM(VF_X2)); ref[0] = VF_X2;
        vf_check_list(&l, ref, 1, "push_front into the emptied list");
        /* insert_after every position (after the last one the tail must move) */
        for (pos = 0; pos < len; pos++) {
            vf_build(&l, ref, len, 0); n = len;
            cstl_slist_insert_after(&l, ELEM(ref[pos]), ELEM(VF_X1));
            for (k = n; k > pos + 1; k--) ref[k] = ref[k - 1];
            ref[pos + 1] = VF_X1; n++;
            vf_check_list(&l, ref, n, "insert_after");
            cstl_slist_push_back(&l, ELEM(VF_X2)); ref[n++] = VF_X2;
            vf_check_list(&l, ref, n, "push_back after insert_after");
        }
        /* erase_after every position (erasing the last node must move the tail back) */
        for (pos = 0; pos + 1 < len; pos++) {
            void * e;
            vf_build(&l, ref, len, 0); n = len;
            e = cstl_slist_erase_after(&l, ELEM(ref[pos]));
            VF_ASSERT(e == ELEM(ref[pos + 1]), "slist: erase_after returns the element behind the given one");
            for (k = pos + 1; k + 1 < n; k++) ref[k] = ref[k + 1];
            n--;
            vf_check_list(&l, ref, n, "erase_after");
            cstl_slist_push_back(&l, ELEM(VF_X1)); ref[n++] = VF_X1;
            vf_check_list(&l, ref, n, "push_back right after erase_after");
            /* and the pushed element can be erased again through its predecessor */
            e = cstl_slist_erase_after(&l, ELEM(ref[n - 2]));
            VF_ASSERT(e == ELEM(VF_X1), "slist: erase_after of the last element returns it");
            n--;
            vf_check_list(&l, ref, n, "erase_after of the last element");
        }
        /* reverse (twice: back to the original), push_back after each */
        vf_build(&l, ref, len, 0); n = len;
        cstl_slist_reverse(&l);
        for (k = 0; k < n / 2; k++) { int t = ref[k]; ref[k] = ref[n - 1 - k]; ref[n - 1 - k] = t; }
        vf_check_list(&l, ref, n, "reverse");
        cstl_slist_push_back(&l, ELEM(VF_X1)); ref[n++] = VF_X1;
        vf_check_list(&l, ref, n, "push_back after reverse");
        cstl_slist_reverse(&l);
        for (k = 0; k < n / 2; k++) { int t = ref[k]; ref[k] = ref[n - 1 - k]; ref[n - 1 - k] = t; }
        vf_check_list(&l, ref, n, "second reverse");
        if (n > 0) {
            VF_ASSERT(cstl_slist_pop_front(&l) == ELEM(ref[0]), "slist: pop_front after reverse returns the first element");
            for (k = 0; k + 1 < n; k++) ref[k] = ref[k + 1];
            n--;
            vf_check_list(&l, ref, n, "pop_front after reverse");
        }
        VF_REACH(len == VF_MAXLEN, "longest list exercised");
    }
    VF_END();
}
#endif

#if defined(VF_B) && VF_B == 2
/* concat (VF_PAIR_OP 1) and swap (VF_PAIR_OP 2) over every pair of lengths; both when VF_PAIR_OP is not given */
#ifndef VF_PAIR_OP
#define VF_PAIR_OP 3
#endif
void h_b_pair(void)
{
    int la, lb, k;
    for (la = 0; la <= VF_MAXLEN; la++) {
        for (lb = 0; lb <= 3; lb++) {
            struct cstl_slist a, b; int ra[VF_POOL], rb[VF_POOL];
            (void)k;
            VF_SCEN(la > 0 && lb > 0);
#if VF_PAIR_OP & 1
            vf_build(&a, ra, la, 0); vf_build(&b, rb, lb, 6);
            cstl_slist_concat(&a, &b);
            for (k = 0; k < lb; k++) ra[la + k] = rb[k];
            vf_check_list(&a, ra, la + lb, "concat dst");
            vf_check_list(&b, rb, 0, "concat src is empty");
            cstl_slist_push_back(&b, ELEM(VF_X1)); rb[0] = VF_X1;
            vf_check_list(&b, rb, 1, "concat src is usable");
            cstl_slist_push_back(&a, ELEM(VF_X2)); ra[la + lb] = VF_X2;
            vf_check_list(&a, ra, la + lb + 1, "push_back after concat");
#endif
#if VF_PAIR_OP & 2
            /* swap, then push_back into both */
            vf_build(&a, ra, la, 0); vf_build(&b, rb, lb, 6);
            cstl_slist_swap(&a, &b);
            vf_check_list(&a, rb, lb, "swap a");
            vf_check_list(&b, ra, la, "swap b");
            cstl_slist_push_back(&a, ELEM(VF_X1)); rb[lb] = VF_X1;
            cstl_slist_push_back(&b, ELEM(VF_X2)); ra[la] = VF_X2;
            vf_check_list(&a, rb, lb + 1, "push_back after swap a");
            vf_check_list(&b, ra, la + 1, "push_back after swap b");
            /* swap back, pop from both */
            cstl_slist_swap(&b, &a);
            vf_check_list(&a, ra, la + 1, "swap back a");
            vf_check_list(&b, rb, lb + 1, "swap back b");
            VF_ASSERT(cstl_slist_pop_front(&a) == ELEM(ra[0]), "slist: pop_front after swap returns the first element");
            vf_check_list(&a, ra + 1, la, "pop_front after swap");
#endif
            VF_REACH(la == VF_MAXLEN && lb == 3, "longest pair exercised");
        }
    }
    VF_END();
}
#endif

#if defined(VF_B) && VF_B == 5
/* clear with a poisoning callback (+ refill); foreach with every stop position */
void h_b_visit(void)
{
    int la, k, stop;
    for (la = 0; la <= VF_MAXLEN; la++) {
        struct cstl_slist a; int ra[VF_POOL];
        VF_SCEN(la > 0);
        /* clear */
        vf_build(&a, ra, la, 0);
        for (k = 0; k < VF_POOL; k++) vf_member[k] = 0;
        for (k = 0; k < la; k++) vf_member[ra[k]] = 1;
        vf_trap.poisoned = 1; vf_trap.n.n = NULL;
        vf_clr_n = 0;
        cstl_slist_clear(&a, vf_clr);
        VF_ASSERT(vf_clr_n == la, "clear: the callback runs exactly once per element");
        for (k = 0; k < la; k++) VF_ASSERT(vf_pool[ra[k]].poisoned, "clear: every element was handed over");
        for (k = 0; k < la; k++) VF_ASSERT(vf_pool[ra[k]].n.n == &vf_trap.n, "clear: an element is not written after its callback returned");
        VF_ASSERT(a.h.n == NULL && a.t == &a.h && a.count == 0 && a.off == offsetof(struct vf_el, n), "clear: the list equals a freshly initialised one");
        vf_check_list(&a, ra, 0, "empty after clear");
        vf_build(&a, ra, 3, 0);
        vf_check_list(&a, ra, 3, "refill after clear");
        /* clearing twice: the second call has nothing to hand over */
        vf_build(&a, ra, la, 0);
        vf_clr_n = 0;
        cstl_slist_clear(&a, vf_clr);
        cstl_slist_clear(&a, vf_clr);
        VF_ASSERT(vf_clr_n == la, "clear: an already cleared list hands over nothing");
        vf_check_list(&a, ra, 0, "empty after second clear");
        /* foreach: stop == la is the callback that only records */
        for (stop = 0; stop <= la; stop++) {
            int res, expect_n = stop < la ? stop + 1 : la;
            vf_build(&a, ra, la, 0);
            vf_visit_n = 0; vf_visit_stop_at = stop;
            res = cstl_slist_foreach(&a, vf_visit, NULL);
            VF_ASSERT(res == (stop < la ? VF_STOPVAL(stop) : 0), "foreach: returns the first non-zero visit result (0 if none)");
            VF_ASSERT(vf_visit_n == expect_n, "foreach: stops at the first non-zero result, else visits every element once");
            for (k = 0; k < expect_n; k++) VF_ASSERT(vf_visit_log[k] == ra[k], "foreach: visits in sequence order");
            vf_check_list(&a, ra, la, "foreach leaves the list unchanged");
        }
        VF_REACH(la == VF_MAXLEN, "longest list exercised");
    }
    VF_END();
}
#endif

#if defined(VF_B) && VF_B == 3
/* sort: every assignment of keys {0,1,2} to lists of length 0..VF_SORTLEN */
#ifndef VF_SORTLEN
#define VF_SORTLEN 4
#endif
void h_b_sort(void)
{
    int len, code, k, j;
    for (len = 0; len <= VF_SORTLEN; len++) {
        int ncodes = 1;
        for (k = 0; k < len; k++) ncodes *= 3;
        for (code = 0; code < ncodes; code++) {
            struct cstl_slist l; int ref[VF_POOL], c = code, n = 0;
            VF_SCEN(len > 1);
            vf_build(&l, ref, len, 0);
            for (k = 0; k < len; k++) { vf_pool[k].key = c % 3; c /= 3; }
            cstl_slist_sort(&l, vf_cmp_key, VF_CMP_PRIV);
            /* reference: stable sort of the ids by key (ordered, ties keep their original order, same elements) */
            for (j = 0; j < 3; j++) for (k = 0; k < len; k++) if (vf_pool[k].key == j) ref[n++] = k;
            vf_check_list(&l, ref, len, "sort: ordered, stable permutation of the same elements");
            cstl_slist_push_back(&l, ELEM(VF_X1)); ref[len] = VF_X1;
            vf_check_list(&l, ref, len + 1, "push_back after sort");
        }
        VF_REACH(len == VF_SORTLEN, "longest list sorted");
    }
    VF_END();
}
#endif

#if defined(VF_B) && VF_B == 4
/* pop_front on the EMPTY list (freshly initialised, and emptied by popping): documented to return NULL
 * ("@retval NULL The list was empty and no object was removed"); the list stays empty and usable */
void h_b_pop_empty(void)
{
    int len, k;
    for (len = 0; len <= 2; len++) {
        struct cstl_slist l; int ref[VF_POOL]; void * e;
        VF_SCEN(1);
        vf_build(&l, ref, len, 0);
        for (k = 0; k < len; k++) {
            e = cstl_slist_pop_front(&l);
            VF_ASSERT(e == ELEM(k), "slist: pop_front returns the first element");
        }
        vf_check_list(&l, ref, 0, "emptied");
        e = cstl_slist_pop_front(&l);
        VF_ASSERT(e == NULL, "slist: pop_front on an empty list returns NULL");
        vf_check_list(&l, ref, 0, "pop_front on the empty list leaves it empty");
        cstl_slist_push_back(&l, ELEM(VF_X1)); ref[0] = VF_X1;
        vf_check_list(&l, ref, 1, "the list is usable after pop_front on empty");
        VF_REACH(len == 2, "all three empty lists exercised");
    }
    VF_END();
}
#endif

#ifdef VF_NATIVE
struct vf_harness { const char * name; void (*fn)(void); };
struct vf_harness vf_harnesses[] = {
#if defined(VF_B) && VF_B == 1
    { "h_b_basic", h_b_basic },
#elif defined(VF_B) && VF_B == 2
    { "h_b_pair", h_b_pair },
#elif defined(VF_B) && VF_B == 3
    { "h_b_sort", h_b_sort },
#elif defined(VF_B) && VF_B == 4
    { "h_b_pop_empty", h_b_pop_empty },
#elif defined(VF_B) && VF_B == 5
    { "h_b_visit", h_b_visit },
#endif
    { NULL, NULL }
};
#endif
