/* Bounded checks for the sorts and searches of /repo/src/array.c and the vector wrappers (C11).
 * Real code executed on every array of length <= VF_LEN over the alphabet {0,1,2} (so every
 * pattern of less/equal/greater outcomes the partition and sift loops can see at that length),
 * for every algorithm selector, element sizes 1, 4 (fast paths) and 12 (memcpy path).
 * rand() is scripted: the first two pivot draws take every value, later draws are 0.
 */
#define VF_REALLOC_FULLCOPY
#include "vf.h"
#include <stdlib.h>
#include <sys/types.h>

static int vf_rand_script[2], vf_rand_n;
#ifndef VF_NATIVE
int rand(void) { int r = vf_rand_n < 2 ? vf_rand_script[vf_rand_n] : 0; vf_rand_n++; return r; }
#else
#define rand vf_rand
static int vf_rand(void) { int r = vf_rand_n < 2 ? vf_rand_script[vf_rand_n] : 0; vf_rand_n++; return r; }
#endif

#include "memory.c"
#include "array.c"
#include "vector.c"

#ifndef VF_ESZ
#define VF_ESZ 4
#endif
#ifndef VF_LEN
#define VF_LEN 4
#endif
#define VF_MAXN 8
/* element = key byte first, then a tag that identifies the original slot (for byte-identity) */
struct vf_e { unsigned char b[VF_ESZ]; };
static struct vf_e vf_buf[VF_MAXN + 4];       /* [0] canary, [1..n] array, [n+1] scratch, [n+2] canary */

static int vf_cmp(const void * a, const void * b, void * p)
{
    (void)p;
    return vf_signmag(((const struct vf_e *)a)->b[0] > ((const struct vf_e *)b)->b[0], ((const struct vf_e *)a)->b[0] < ((const struct vf_e *)b)->b[0]);
}

static const cstl_sort_algorithm_t vf_algos[5] = {
    CSTL_SORT_ALGORITHM_QUICK, CSTL_SORT_ALGORITHM_QUICK_R, CSTL_SORT_ALGORITHM_QUICK_M, CSTL_SORT_ALGORITHM_HEAP,
    (cstl_sort_algorithm_t)2897234 };

static void vf_fill(int n, int code)
{
    int k, j;
    for (k = 0; k < VF_MAXN + 4; k++) for (j = 0; j < VF_ESZ; j++) vf_buf[k].b[j] = 0xEE;
    for (k = 0; k < n; k++) {
        vf_buf[1 + k].b[0] = (unsigned char)(code % 3); code /= 3;
        for (j = 1; j < VF_ESZ; j++) vf_buf[1 + k].b[j] = (unsigned char)(0x10 * (k + 1) + j);
    }
}

static void vf_check_sorted(int n, int code, const char * what)
{
    int k, j, cnt[3] = { 0, 0, 0 }, seen[VF_MAXN];
    (void)what;
    for (k = 0; k < n; k++) { cnt[code % 3]++; code /= 3; seen[k] = 0; }
    for (k = 0; k < n; k++) {
        VF_ASSERT(vf_buf[1 + k].b[0] <= 2, "sort: elements are the original ones");
        cnt[vf_buf[1 + k].b[0] % 3]--;
        VF_ASSERT(k == 0 || vf_buf[k].b[0] <= vf_buf[1 + k].b[0], "sort: non-decreasing order");
#if VF_ESZ > 1
        /* byte identity: the tag names the original slot; every slot exactly once, bytes intact */
        { int slot = vf_buf[1 + k].b[1] / 0x10 - 1;
          VF_ASSERT(slot >= 0 && slot < n && !seen[slot], "sort: nothing lost or duplicated");
          if (slot >= 0 && slot < n) seen[slot] = 1;
          for (j = 1; j < VF_ESZ; j++) VF_ASSERT(vf_buf[1 + k].b[j] == (unsigned char)(0x10 * (slot + 1) + j), "sort: elements byte-identical"); }
#endif
    }
    VF_ASSERT(cnt[0] == 0 && cnt[1] == 0 && cnt[2] == 0, "sort: same multiset of keys");
    for (j = 0; j < VF_ESZ; j++) {
        VF_ASSERT(vf_buf[0].b[j] == 0xEE && vf_buf[n + 2].b[j] == 0xEE && vf_buf[n + 3].b[j] == 0xEE, "sort: no memory outside the array and the scratch element touched");
    }
}

void h_b_sort(void)
{
    int n, code, a, k, p0, p1;
    for (n = 0; n <= VF_LEN; n++) {
        int ncodes = 1;
        for (k = 0; k < n; k++) ncodes *= 3;
        for (code = 0; code < ncodes; code++) {
            for (a = 0; a < 5; a++) {
                int np0 = (a == 1 && n > 1) ? n : 1, np1 = (a == 1 && n > 2) ? 2 : 1;
                for (p0 = 0; p0 < np0; p0++) for (p1 = 0; p1 < np1; p1++) {
                    VF_SCEN(n > 1);
                    vf_fill(n, code);
                    vf_rand_script[0] = p0; vf_rand_script[1] = p1 ? n - 1 : 0; vf_rand_n = 0;
                    cstl_raw_array_sort(&vf_buf[1], (size_t)n, VF_ESZ, vf_cmp, NULL, cstl_swap, &vf_buf[n + 1], vf_algos[a]);
                    vf_check_sorted(n, code, "raw sort");
                }
            }
            /* on the sorted array: binary search and linear find agree with the contents; reverse mirrors */
            for (k = 0; k <= 3; k++) {
                struct vf_e probe; ssize_t s, f; int first = -1, i;
                probe.b[0] = (unsigned char)k;
                for (i = 0; i < n; i++) if (vf_buf[1 + i].b[0] == k && first < 0) first = i;
                s = cstl_raw_array_search(&vf_buf[1], (size_t)n, VF_ESZ, &probe, vf_cmp, NULL);
                f = cstl_raw_array_find(&vf_buf[1], (size_t)n, VF_ESZ, &probe, vf_cmp, NULL);
                VF_ASSERT(f == (ssize_t)first, "find: first index comparing equal, -1 iff none");
                VF_ASSERT(first < 0 ? s == -1 : (s >= 0 && s < n && vf_buf[1 + s].b[0] == k), "search: an index comparing equal iff one exists, else -1");
            }
            {
                struct vf_e copy[VF_MAXN]; int i;
                for (i = 0; i < n; i++) copy[i] = vf_buf[1 + i];
                cstl_raw_array_reverse(&vf_buf[1], (size_t)n, VF_ESZ, cstl_swap, &vf_buf[n + 1]);
                for (i = 0; i < n; i++) for (k = 0; k < VF_ESZ; k++) VF_ASSERT(vf_buf[1 + i].b[k] == copy[n - 1 - i].b[k], "reverse: exactly mirrors the order");
            }
        }
        VF_REACH(n == VF_LEN, "longest arrays of the scope reached");
    }
    VF_END();
}

/* the vector wrappers hand the right arguments to the raw functions (scratch = slot cap) */
void h_b_vector(void)
{
    int n, code, k;
    for (n = 0; n <= 3; n++) {
        int ncodes = 1;
        for (k = 0; k < n; k++) ncodes *= 3;
        for (code = 0; code < ncodes; code++) {
            struct cstl_vector v; int c = code; struct vf_e probe;
            VF_SCEN(n > 1);
            cstl_vector_init(&v, VF_ESZ);
            cstl_vector_resize(&v, (size_t)n);
            for (k = 0; k < n; k++) { struct vf_e * e = cstl_vector_at(&v, (size_t)k); int j; e->b[0] = (unsigned char)(c % 3); c /= 3; for (j = 1; j < VF_ESZ; j++) e->b[j] = (unsigned char)j; }
            cstl_vector_sort(&v, vf_cmp, NULL);
            for (k = 1; k < n; k++) VF_ASSERT(((struct vf_e *)cstl_vector_at(&v, (size_t)k - 1))->b[0] <= ((struct vf_e *)cstl_vector_at(&v, (size_t)k))->b[0], "vector sort: non-decreasing");
            probe.b[0] = 1;
            { ssize_t s = cstl_vector_search(&v, &probe, vf_cmp, NULL), f = cstl_vector_find(&v, &probe, vf_cmp, NULL);
              VF_ASSERT((s >= 0) == (f >= 0), "vector search and find agree on presence");
              VF_ASSERT(s < 0 || ((struct vf_e *)cstl_vector_at(&v, (size_t)s))->b[0] == 1, "vector search: element compares equal"); }
            cstl_vector_reverse(&v);
            for (k = 1; k < n; k++) VF_ASSERT(((struct vf_e *)cstl_vector_at(&v, (size_t)k - 1))->b[0] >= ((struct vf_e *)cstl_vector_at(&v, (size_t)k))->b[0], "vector reverse mirrors the sorted order");
            cstl_vector_clear(&v);
        }
        VF_REACH(n == 3, "longest vectors reached");
    }
    VF_END();
}

#ifdef VF_NATIVE
struct vf_harness { const char * name; void (*fn)(void); };
struct vf_harness vf_harnesses[] = { { "h_b_sort", h_b_sort }, { "h_b_vector", h_b_vector }, { NULL, NULL } };
#endif
