/* Contracts for /repo/src/vector.c  (C09, C16; used by C10 and C11).
 *
 * The element size is a constant per instance (-DVF_ESZ=n): products of two symbolic 64-bit
 * values do not decide in reasonable time (DESIGN section 2), products with a constant do.
 */
#include "vf.h"
#include <stdlib.h>
#include "cstl/vector.h"
#include "cstl/array.h"

#ifndef VF_ESZ
#define VF_ESZ 4
#endif

/* ------------------------------------------------------------------ ghost state */
size_t vf_w_sz, vf_w_count, vf_w_cap, vf_w_i, vf_w_g;
_Bool vf_w_has_cons, vf_w_has_dest;

size_t vf_cons_calls, vf_dest_calls;
size_t vf_xtor_next;                   /* index of the slot the next constructor call must get   */
_Bool vf_xtor_bad;                     /* a constructor/destructor call got a wrong slot / priv  */
const struct cstl_vector * vf_xtor_vec;   /* the vector under test (tied to the fresh object by a requires) */
void * vf_xtor_priv;

#ifndef VF_NATIVE
void vf_cons(void * e, void * p)
{
    if (e != (void *)((char *)vf_xtor_vec->elem.base + vf_xtor_next * VF_ESZ) || p != vf_xtor_priv) {
        vf_xtor_bad = 1;
    }
    vf_xtor_next++;
    vf_cons_calls++;
}
void vf_dest(void * e, void * p)
{
    /* destructors run downwards: the slot just below the previous one */
    if (vf_xtor_next == 0 || e != (void *)((char *)vf_xtor_vec->elem.base + (vf_xtor_next - 1) * VF_ESZ) || p != vf_xtor_priv) {
        vf_xtor_bad = 1;
    }
    vf_xtor_next--;
    vf_dest_calls++;
}
#endif

/* ------------------------------------------------------------------ predicates */
#define V_BYTES(cap)    ((vf_u128)((vf_u128)(cap) + 1) * VF_ESZ)
/* DFCC needs live buffers below its own allocation limit (DESIGN section 8, item 5) */
#define V_MAXBYTES      ((vf_u128)1 << 40)
#define V_NUM(v)        ((v)->elem.size == VF_ESZ && (v)->count <= (v)->cap)
#define V_EMPTY(v)      ((v)->elem.base == NULL && (v)->cap == 0)
#define V_STORE(v)      (V_EMPTY(v) ||                                                               \
                         ((v)->elem.base != NULL && __CPROVER_POINTER_OFFSET((v)->elem.base) == 0 && \
                          (vf_u128)__CPROVER_OBJECT_SIZE((v)->elem.base) >= V_BYTES((v)->cap) &&    \
                          __CPROVER_rw_ok((v)->elem.base, ((v)->cap + 1) * VF_ESZ)))
#define V_WF(v)         (V_NUM(v) && V_STORE(v))
#define V_XTORS(v)      (((v)->elem.xtor.cons == NULL || (v)->elem.xtor.cons == vf_cons) &&          \
                         ((v)->elem.xtor.dest == NULL || (v)->elem.xtor.dest == vf_dest))
#define V_WITNESS(v)    (vf_w_count == (v)->count && vf_w_cap == (v)->cap &&                         \
                         vf_w_has_cons == ((v)->elem.xtor.cons != NULL) &&                           \
                         vf_w_has_dest == ((v)->elem.xtor.dest != NULL))
/* pre-state families (one contract variant per family: is_fresh under || is unreliable in 6.11) */
#ifdef VF_VEC_EMPTY
#define V_PRE(v)        (FRESH(v, sizeof(struct cstl_vector)) && V_NUM(v) && V_EMPTY(v) && V_XTORS(v) && V_WITNESS(v))
#else
#define V_PRE(v)        (FRESH(v, sizeof(struct cstl_vector)) && V_NUM(v) && V_XTORS(v) && V_WITNESS(v) && \
                         V_BYTES((v)->cap) <= V_MAXBYTES &&                                          \
                         FRESH((v)->elem.base, ((v)->cap + 1) * VF_ESZ))
#endif
#define V_BYTE(v, g)    (((const unsigned char *)(v)->elem.base)[g])

/* ------------------------------------------------------------------ contracts */

/* C09/C16: (re)allocation lands completely or changes nothing */
static void cstl_vector_set_capacity(struct cstl_vector * const v, const size_t sz)
REQUIRES(V_PRE(v))
REQUIRES(sz >= v->count)
#ifndef VF_VEC_EMPTY
REQUIRES(vf_w_g < v->count * VF_ESZ)
#endif
ASSIGNS(v->elem.base, v->cap)
FREES(v->elem.base)
ENSURES(V_NUM(v) && v->count == OLD(v->count))
#ifdef VF_VEC_EMPTY
ENSURES((v->elem.base == NULL && v->cap == 0) ||
        (v->cap == sz && FRESH(v->elem.base, (sz + 1) * VF_ESZ) &&
         (vf_u128)__CPROVER_OBJECT_SIZE(v->elem.base) >= V_BYTES(sz)))
#else
/* failure keeps the old buffer alive; success keeps every byte of the elements in range */
ENSURES((v->elem.base == OLD(v->elem.base) && v->cap == OLD(v->cap) && !__CPROVER_was_freed(v->elem.base)) ||
        (v->cap == sz && FRESH(v->elem.base, (sz + 1) * VF_ESZ) &&
         (vf_u128)__CPROVER_OBJECT_SIZE(v->elem.base) >= V_BYTES(sz) &&
         V_BYTE(v, vf_w_g) == OLD(V_BYTE(v, vf_w_g))))
#endif
;

/* C09: reserve never shrinks, is a quiet no-op when it cannot grow */
void cstl_vector_reserve(struct cstl_vector * const v, const size_t sz)
REQUIRES(V_PRE(v))
#ifndef VF_VEC_EMPTY
REQUIRES(vf_w_g < v->count * VF_ESZ)
#endif
ASSIGNS(v->elem.base, v->cap)
FREES(v->elem.base)
ENSURES(V_WF(v) && v->count == OLD(v->count))
ENSURES(v->cap == OLD(v->cap) || (v->cap == sz && sz > OLD(v->cap)))
#ifndef VF_VEC_EMPTY
ENSURES(V_BYTE(v, vf_w_g) == OLD(V_BYTE(v, vf_w_g)))
#endif
;

void cstl_vector_shrink_to_fit(struct cstl_vector * const v)
REQUIRES(V_PRE(v))
#ifndef VF_VEC_EMPTY
REQUIRES(vf_w_g < v->count * VF_ESZ)
#endif
ASSIGNS(v->elem.base, v->cap)
FREES(v->elem.base)
ENSURES(V_WF(v) && v->count == OLD(v->count))
ENSURES(v->cap == OLD(v->cap) || v->cap == v->count)
#ifndef VF_VEC_EMPTY
ENSURES(V_BYTE(v, vf_w_g) == OLD(V_BYTE(v, vf_w_g)))
#endif
;

/* C09: resize reaches the requested size or aborts; constructors run once per entering
 * element in ascending order, destructors once per leaving element in descending order */
void cstl_vector_resize(struct cstl_vector * const v, const size_t sz)
REQUIRES(V_PRE(v))
REQUIRES(vf_cons_calls == 0 && vf_dest_calls == 0 && !vf_xtor_bad && vf_xtor_next == v->count &&
         vf_xtor_priv == v->elem.xtor.priv && vf_xtor_vec == v)
ASSIGNS(v->elem.base, v->cap, v->count, vf_cons_calls, vf_dest_calls, vf_xtor_next, vf_xtor_bad, vf_aborted)
FREES(v->elem.base)
ENSURES(V_WF(v) && v->count == sz)
ENSURES(vf_cons_calls == ((sz > OLD(v->count) && v->elem.xtor.cons != NULL) ? sz - OLD(v->count) : 0))
ENSURES(vf_dest_calls == ((sz < OLD(v->count) && v->elem.xtor.dest != NULL) ? OLD(v->count) - sz : 0))
ENSURES(!vf_xtor_bad)
;

/* C09: at aborts exactly when the index is at or beyond size */
const void * cstl_vector_at_const(const struct cstl_vector * const v, const size_t i)
REQUIRES(V_PRE(v))
ASSIGNS(vf_aborted)
ENSURES(i < v->count)
ENSURES(__CPROVER_same_object(RESULT, v->elem.base) && __CPROVER_POINTER_OFFSET(RESULT) == i * VF_ESZ)
ENSURES((vf_u128)__CPROVER_POINTER_OFFSET(RESULT) + VF_ESZ <= (vf_u128)__CPROVER_OBJECT_SIZE(v->elem.base))
;

void cstl_vector_clear(struct cstl_vector * const v)
REQUIRES(V_PRE(v))
REQUIRES(vf_cons_calls == 0 && vf_dest_calls == 0 && !vf_xtor_bad && vf_xtor_next == v->count &&
         vf_xtor_priv == v->elem.xtor.priv && vf_xtor_vec == v)
ASSIGNS(v->elem.base, v->cap, v->count, vf_cons_calls, vf_dest_calls, vf_xtor_next, vf_xtor_bad, vf_aborted)
FREES(v->elem.base)
ENSURES(v->elem.base == NULL && v->cap == 0 && v->count == 0 && v->elem.size == VF_ESZ)
ENSURES(vf_dest_calls == (v->elem.xtor.dest != NULL ? OLD(v->count) : 0) && vf_cons_calls == 0 && !vf_xtor_bad)
#ifndef VF_VEC_EMPTY
ENSURES(__CPROVER_was_freed(OLD(v->elem.base)))
#endif
;

#include "vector.c"


/* C09: swap exchanges the two objects completely -- storage, size, capacity AND the element
 * description (element size, constructor, destructor, private pointer) that the storage was laid
 * out for; so each object stays well-formed with what it now holds.  Any field values. */
#ifdef VF_G_swap
#define V_SWAPPED(x, y) ((x)->elem.base == OLD((y)->elem.base) && (x)->elem.size == OLD((y)->elem.size) &&          \
                         (x)->elem.xtor.cons == OLD((y)->elem.xtor.cons) && (x)->elem.xtor.dest == OLD((y)->elem.xtor.dest) && \
                         (x)->elem.xtor.priv == OLD((y)->elem.xtor.priv) && (x)->count == OLD((y)->count) && (x)->cap == OLD((y)->cap))
void cstl_vector_swap(struct cstl_vector * const a, struct cstl_vector * const b)
REQUIRES(FRESH(a, sizeof(*a)) && FRESH(b, sizeof(*b)))
ASSIGNS(*a, *b)
ENSURES(V_SWAPPED(a, b) && V_SWAPPED(b, a))
;
#endif

/* C09/C11: the sort / reverse / search / find wrappers hand the raw-array functions EXACTLY the
 * elements [0, size) -- not the capacity --, the vector's element size, and (sort, reverse) the
 * spare slot at index capacity as scratch, which lies inside the allocation of capacity+1
 * elements.  The raw-array functions are replaced by contracts whose preconditions say that (their
 * own behaviour is C11: rawarray.* groups); the frame is the elements and the scratch slot. */
#ifdef VF_G_wrappers
cstl_compare_func_t * vf_wr_cmp; void * vf_wr_priv; cstl_swap_func_t * vf_wr_swap; int vf_wr_algo; const void * vf_wr_ex;
size_t vf_wr_calls;
#define WR_ARGS(arr, count, size) ((arr) == vf_xtor_vec->elem.base && (count) == vf_xtor_vec->count && (size) == vf_xtor_vec->elem.size)
#define WR_TMP(t)       ((t) == (void *)((char *)vf_xtor_vec->elem.base + vf_xtor_vec->cap * VF_ESZ))
void cstl_raw_array_sort(void * const arr, const size_t count, const size_t size, cstl_compare_func_t * const cmp, void * const priv,
                         cstl_swap_func_t * const swap, void * const tmp, const cstl_sort_algorithm_t algo)
REQUIRES(WR_ARGS(arr, count, size) && WR_TMP(tmp) && cmp == vf_wr_cmp && priv == vf_wr_priv && swap == vf_wr_swap && (int)algo == vf_wr_algo)
ASSIGNS(vf_wr_calls; arr != NULL: __CPROVER_object_whole(arr))
ENSURES(vf_wr_calls == OLD(vf_wr_calls) + 1)
;
void cstl_raw_array_reverse(void * const arr, const size_t count, const size_t size, cstl_swap_func_t * const swap, void * const tmp)
REQUIRES(WR_ARGS(arr, count, size) && WR_TMP(tmp) && swap == vf_wr_swap)
ASSIGNS(vf_wr_calls; arr != NULL: __CPROVER_object_whole(arr))
ENSURES(vf_wr_calls == OLD(vf_wr_calls) + 1)
;
ssize_t cstl_raw_array_search(const void * const arr, const size_t count, const size_t size, const void * const ex,
                              cstl_compare_func_t * const cmp, void * const priv)
REQUIRES(WR_ARGS(arr, count, size) && ex == vf_wr_ex && cmp == vf_wr_cmp && priv == vf_wr_priv)
ASSIGNS(vf_wr_calls)
ENSURES(vf_wr_calls == OLD(vf_wr_calls) + 1 && RESULT >= -1 && (RESULT == -1 || (size_t)RESULT < count))
;
ssize_t cstl_raw_array_find(const void * const arr, const size_t count, const size_t size, const void * const ex,
                            cstl_compare_func_t * const cmp, void * const priv)
REQUIRES(WR_ARGS(arr, count, size) && ex == vf_wr_ex && cmp == vf_wr_cmp && priv == vf_wr_priv)
ASSIGNS(vf_wr_calls)
ENSURES(vf_wr_calls == OLD(vf_wr_calls) + 1 && RESULT >= -1 && (RESULT == -1 || (size_t)RESULT < count))
;
#define WR_PRE(v)       (V_PRE(v) && vf_xtor_vec == (v) && vf_wr_calls == 0)
#define WR_KEPT(v)      (V_WF(v) && (v)->elem.base == OLD((v)->elem.base) && (v)->count == OLD((v)->count) && (v)->cap == OLD((v)->cap) && vf_wr_calls == 1)
#ifdef VF_VEC_EMPTY
#define WR_FRAME(v)     vf_wr_calls
#else
#define WR_FRAME(v)     vf_wr_calls, __CPROVER_object_whole((v)->elem.base)
#endif
void __cstl_vector_sort(struct cstl_vector * const v, cstl_compare_func_t * const cmp, void * const priv, cstl_swap_func_t * const swap, const cstl_sort_algorithm_t algo)
REQUIRES(WR_PRE(v) && cmp == vf_wr_cmp && priv == vf_wr_priv && swap == vf_wr_swap && (int)algo == vf_wr_algo)
ASSIGNS(WR_FRAME(v))
ENSURES(WR_KEPT(v))
;
void __cstl_vector_reverse(struct cstl_vector * const v, cstl_swap_func_t * const swap)
REQUIRES(WR_PRE(v) && swap == vf_wr_swap)
ASSIGNS(WR_FRAME(v))
ENSURES(WR_KEPT(v))
;
ssize_t cstl_vector_search(const struct cstl_vector * const v, const void * const e, cstl_compare_func_t * const cmp, void * const priv)
REQUIRES(WR_PRE(v) && e == vf_wr_ex && cmp == vf_wr_cmp && priv == vf_wr_priv)
ASSIGNS(vf_wr_calls)
ENSURES(vf_wr_calls == 1 && RESULT >= -1 && (RESULT == -1 || (size_t)RESULT < v->count))
;
ssize_t cstl_vector_find(const struct cstl_vector * const v, const void * const e, cstl_compare_func_t * const cmp, void * const priv)
REQUIRES(WR_PRE(v) && e == vf_wr_ex && cmp == vf_wr_cmp && priv == vf_wr_priv)
ASSIGNS(vf_wr_calls)
ENSURES(vf_wr_calls == 1 && RESULT >= -1 && (RESULT == -1 || (size_t)RESULT < v->count))
;
#endif

/* ------------------------------------------------------------------ harnesses */
#ifndef VF_NATIVE

#define V_WIT_IN() do { VF_IN_SIZE(count); VF_IN_SIZE(cap); VF_IN_BOOL(has_cons); VF_IN_BOOL(has_dest); } while (0)
#define V_KEEP()   do { vf_keep_off = vf_w_g; vf_keep_len = 1; } while (0)
/* address-taken anchors so that CBMC's function-pointer removal knows the callback targets */
cstl_xtor_func_t * const vf_anchor_cons = vf_cons;
cstl_xtor_func_t * const vf_anchor_dest = vf_dest;

#ifdef VF_G_swap
void h_swap(void) { struct cstl_vector * a, * b; cstl_vector_swap(a, b); VF_END(); }
#endif
#ifdef VF_G_wrappers
const void * nondet_cptr(void); void * nondet_ptr(void); cstl_compare_func_t * nondet_cmpf(void); cstl_swap_func_t * nondet_swapf(void);
#define WR_IN() do { V_WIT_IN(); vf_wr_cmp = nondet_cmpf(); vf_wr_priv = nondet_ptr(); vf_wr_swap = nondet_swapf(); vf_wr_algo = nondet_int(); vf_wr_ex = nondet_cptr(); } while (0)
void h_w_sort(void) { struct cstl_vector * v; WR_IN(); __cstl_vector_sort(v, vf_wr_cmp, vf_wr_priv, vf_wr_swap, (cstl_sort_algorithm_t)vf_wr_algo); VF_END(); }
void h_w_reverse(void) { struct cstl_vector * v; WR_IN(); __cstl_vector_reverse(v, vf_wr_swap); VF_END(); }
void h_w_search(void) { struct cstl_vector * v; WR_IN(); cstl_vector_search(v, vf_wr_ex, vf_wr_cmp, vf_wr_priv); VF_END(); }
void h_w_find(void) { struct cstl_vector * v; WR_IN(); cstl_vector_find(v, vf_wr_ex, vf_wr_cmp, vf_wr_priv); VF_END(); }
#endif
void h_set_capacity(void)
{
    struct cstl_vector * v;
    size_t sz = VF_IN_SIZE(sz);
    V_WIT_IN(); VF_IN_SIZE(g); V_KEEP();
    cstl_vector_set_capacity(v, sz);
    VF_END();
}

void h_reserve(void)
{
    struct cstl_vector * v;
    size_t sz = VF_IN_SIZE(sz);
    V_WIT_IN(); VF_IN_SIZE(g); V_KEEP();
    cstl_vector_reserve(v, sz);
    VF_END();
}

void h_shrink(void)
{
    struct cstl_vector * v;
    V_WIT_IN(); VF_IN_SIZE(g); V_KEEP();
    cstl_vector_shrink_to_fit(v);
    VF_END();
}

void h_resize(void)
{
    struct cstl_vector * v;
    size_t sz = VF_IN_SIZE(sz);
    V_WIT_IN();
    cstl_vector_resize(v, sz);
    VF_END();
}

void h_at(void)
{
    struct cstl_vector * v;
    size_t i = VF_IN_SIZE(i);
    V_WIT_IN();
    cstl_vector_at_const(v, i);
    VF_END();
}

void h_clear(void)
{
    struct cstl_vector * v;
    V_WIT_IN();
    cstl_vector_clear(v);
    VF_END();
}

#else /* VF_NATIVE ------------------------------------------------------------------- */

static size_t vf_n_cons, vf_n_dest;
static void vf_ncons(void * e, void * p) { (void)p; memset(e, 0x5a, VF_ESZ); vf_n_cons++; }
static void vf_ndest(void * e, void * p) { (void)p; memset(e, 0xa5, VF_ESZ); vf_n_dest++; }

static struct cstl_vector * vf_native_vector(void)
{
    struct cstl_vector * v = calloc(1, sizeof(*v));
    VF_IN_SIZE(count); VF_IN_SIZE(cap); VF_IN_BOOL(has_cons); VF_IN_BOOL(has_dest);
    cstl_vector_init_complex(v, VF_ESZ, vf_w_has_cons ? vf_ncons : NULL, vf_w_has_dest ? vf_ndest : NULL, NULL);
    VF_ASSUME(vf_w_count <= vf_w_cap && vf_w_cap <= ((size_t)1 << 24));
    if (vf_w_cap > 0) {
        /* reach the state through the API */
        cstl_vector_reserve(v, vf_w_cap);
        VF_ASSUME(v->cap == vf_w_cap);
        cstl_vector_resize(v, vf_w_count);
    }
    vf_n_cons = vf_n_dest = 0;
    return v;
}

static void vf_native_check_store(struct cstl_vector * v, const char * what)
{
    const size_t usable = v->elem.base != NULL ? malloc_usable_size(v->elem.base) : 0;
    printf("%s: count=%zu cap=%zu usable bytes=%zu needed for cap+1 elements=%llu\n", what, v->count, v->cap, usable,
           (unsigned long long)(V_BYTES(v->cap) > (vf_u128)~0ull ? ~0ull : (unsigned long long)V_BYTES(v->cap)));
    VF_NCHECK(v->count <= v->cap, "size <= capacity");
    VF_NCHECK((v->elem.base == NULL && v->cap == 0) || (vf_u128)usable >= V_BYTES(v->cap),
              "one live allocation large enough for capacity+1 elements");
    if (v->count > 0) {
        /* ASan traps if the last element lies outside the allocation */
        volatile unsigned char c = *((unsigned char *)cstl_vector_at(v, v->count - 1) + VF_ESZ - 1);
        (void)c;
    }
}

void h_set_capacity(void)
{
    struct cstl_vector * v = vf_native_vector();
    size_t sz = VF_IN_SIZE(sz);
    VF_ASSUME(sz >= v->count);
    cstl_vector_set_capacity(v, sz);
    vf_native_check_store(v, "after set_capacity");
}

void h_reserve(void)
{
    struct cstl_vector * v = vf_native_vector();
    size_t sz = VF_IN_SIZE(sz);
    cstl_vector_reserve(v, sz);
    vf_native_check_store(v, "after reserve");
}

void h_shrink(void)
{
    struct cstl_vector * v = vf_native_vector();
    cstl_vector_shrink_to_fit(v);
    vf_native_check_store(v, "after shrink_to_fit");
}

static void vf_do_resize(void * a)
{
    void ** args = a;
    cstl_vector_resize(args[0], *(size_t *)args[1]);
}
int vf_try(void (*fn)(void *), void * arg);

void h_resize(void)
{
    struct cstl_vector * v = vf_native_vector();
    size_t sz = VF_IN_SIZE(sz);
    const size_t oc = v->count;
    void * args[2];
    int sig;
    args[0] = v; args[1] = &sz;
    sig = vf_try(vf_do_resize, args);
    if (sig != 0) {
        printf("resize ended with signal %d\n", sig);
        VF_NCHECK(sig == SIGABRT, "a resize that cannot be satisfied aborts (and does nothing else)");
        return;
    }
    vf_native_check_store(v, "after resize");
    VF_NCHECK(v->count == sz, "size equals the request");
    VF_NCHECK(vf_n_cons == ((sz > oc && vf_w_has_cons) ? sz - oc : 0), "constructor once per entering element");
    VF_NCHECK(vf_n_dest == ((sz < oc && vf_w_has_dest) ? oc - sz : 0), "destructor once per leaving element");
}

static void vf_do_at(void * a)
{
    void ** args = a;
    args[2] = (void *)cstl_vector_at_const(args[0], *(size_t *)args[1]);
}

void h_at(void)
{
    struct cstl_vector * v = vf_native_vector();
    size_t i = VF_IN_SIZE(i);
    void * args[3];
    int sig;
    args[0] = v; args[1] = &i; args[2] = NULL;
    sig = vf_try(vf_do_at, args);
    printf("at(%zu) with size %zu: signal %d\n", i, v->count, sig);
    VF_NCHECK((sig == SIGABRT) == (i >= v->count), "at aborts exactly when the index is at or beyond size");
    if (sig == 0) {
        VF_NCHECK((char *)args[2] == (char *)v->elem.base + i * VF_ESZ, "at returns the address of element i");
    }
}

void h_clear(void)
{
    struct cstl_vector * v = vf_native_vector();
    const size_t oc = v->count;
    cstl_vector_clear(v);
    VF_NCHECK(v->elem.base == NULL && v->cap == 0 && v->count == 0, "cleared vector is empty");
    VF_NCHECK(vf_n_dest == (vf_w_has_dest ? oc : 0), "destructor once per element");
}

/* swap of two vectors with different element sizes: each keeps a consistent (size, storage) pair */
void h_swap(void)
{
    struct cstl_vector a, b, a0, b0;
    cstl_vector_init_complex(&a, 8, NULL, NULL, &a);
    cstl_vector_init_complex(&b, 1, NULL, NULL, &b);
    cstl_vector_resize(&a, 4);
    cstl_vector_resize(&b, 100);
    a0 = a; b0 = b;
    cstl_vector_swap(&a, &b);
    VF_NCHECK(memcmp(&a, &b0, sizeof(a)) == 0 && memcmp(&b, &a0, sizeof(b)) == 0, "swap exchanges the two objects completely (element size included)");
    VF_NCHECK(malloc_usable_size(a.elem.base) >= (a.cap + 1) * a.elem.size && malloc_usable_size(b.elem.base) >= (b.cap + 1) * b.elem.size,
              "after swap each vector's storage holds capacity+1 elements of ITS element size");
    cstl_vector_clear(&a); cstl_vector_clear(&b);
}

struct vf_harness { const char * name; void (*fn)(void); };
struct vf_harness vf_harnesses[] = {
    { "h_swap", h_swap },
    { "h_set_capacity", h_set_capacity }, { "h_reserve", h_reserve }, { "h_shrink", h_shrink },
    { "h_resize", h_resize }, { "h_at", h_at }, { "h_clear", h_clear },
    { NULL, NULL }
};

#endif
