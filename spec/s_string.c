/* Contracts for /repo/src/_string.c as instantiated by /repo/src/string.c (C10, C16).
 *
 * vector.c is included with its body: the string functions are verified down to realloc
 * (no assumed vector contracts).  memcpy/memmove are contract models (vf.h): every range
 * obligation "inside the string's storage" is decided for all sizes.
 */
#ifndef VF_G_sswap      /* (swap copies whole objects of constant size: CBMC's own memcpy keeps the contents) */
#define VF_MODEL_MEMCPY
#endif
#define VF_KEEP_TWO
#ifdef VF_S_WIDE
#define VF_KEEP_UNIT 4
#else
#define VF_KEEP_UNIT 1
#endif
#include "vf.h"
#include <stdlib.h>
#include <string.h>
#include <wchar.h>

/* ghosts the injected vector.c loop contracts refer to (constructors are never set for strings) */
size_t vf_cons_calls, vf_dest_calls, vf_xtor_next;
_Bool vf_xtor_bad;

size_t vf_w_size, vf_w_cap, vf_w_len, vf_w_g, vf_w_h, vf_w_pos, vf_w_n, vf_w_k;

#ifndef VF_NATIVE
/* strlen / wcslen as contract models (assumed libc behaviour): the result is the index of a NUL
 * inside the live object, and no character before it is NUL -- stated for the ghost index
 * vf_len_k (arbitrary, so for every index).  CBMC's own models are unbounded loops. */
size_t vf_len_k;
#define VF_LEN_MODEL(NAME, T)                                                                     \
size_t NAME(const T * str)                                                                        \
{                                                                                                 \
    size_t n = nondet_size_t();                                                                   \
    __CPROVER_assert(__CPROVER_r_ok(str, sizeof(T)), #NAME ": argument points into a live object"); \
    __CPROVER_assume(n < (__CPROVER_OBJECT_SIZE(str) - __CPROVER_POINTER_OFFSET(str)) / sizeof(T)); \
    __CPROVER_assume(str[n] == 0);                                                                \
    __CPROVER_assume(!(vf_len_k < n) || str[vf_len_k] != 0);                                      \
    return n;                                                                                     \
}
VF_LEN_MODEL(strlen, char)
VF_LEN_MODEL(wcslen, wchar_t)
#endif
/* part of the loop invariant of insert_ch's fill loop (spec/loops/string.lc): the characters
 * outside the gap keep the values they had at loop entry (ghost indices g, h) */
#ifdef VF_S_EMPTY
#define VF_ICH_KEEP 1
#else
#define VF_ICH_D ((cstl_STRING_char_t *)s->v.elem.base)
#define VF_ICH_KEEP ((vf_w_g < __CPROVER_loop_entry(idx) ==> VF_ICH_D[vf_w_g] == __CPROVER_loop_entry(VF_ICH_D[vf_w_g])) && \
                     ((vf_w_h >= __CPROVER_loop_entry(idx) && vf_w_h < vf_w_size) ==> VF_ICH_D[vf_w_h + __CPROVER_loop_entry(cnt)] == __CPROVER_loop_entry(VF_ICH_D[vf_w_h + cnt])))
#endif
#ifdef VF_S_EMPTY
#define VF_RSZ_KEEP 1
#else
#define VF_RSZ_KEEP ((vf_w_g < n && vf_w_g < __CPROVER_loop_entry(sz)) ==> VF_ICH_D[vf_w_g] == __CPROVER_loop_entry(VF_ICH_D[vf_w_g]))
#endif
#include "vector.c"
#include "string.c"

#define ST   cstl_string
#define SN(n) cstl_string_##n
#define CH   char
#define NUL  '\0'
#define CHSZ 1
#ifdef VF_S_NARROW
#include "c_string_tpl.h"
#endif
#undef ST
#undef SN
#undef CH
#undef NUL
#undef CHSZ

#define ST   cstl_wstring
#define SN(n) cstl_wstring_##n
#define CH   wchar_t
#define NUL  L'\0'
#define CHSZ sizeof(wchar_t)
#ifdef VF_S_WIDE
#include "c_string_tpl.h"
#endif
#undef ST
#undef SN
#undef CH
#undef NUL
#undef CHSZ

#ifndef VF_NATIVE
#ifdef VF_S_NARROW
#define XST  cstl_string
#define XSN(n) cstl_string_##n
#define XCHSZ 1
#else
#define XST  cstl_wstring
#define XSN(n) cstl_wstring_##n
#define XCHSZ sizeof(wchar_t)
#endif
#define S_WIT_IN() do { VF_IN_SIZE(size); VF_IN_SIZE(cap); VF_IN_SIZE(g); VF_IN_SIZE(h); \
        vf_keep_off = vf_w_g * XCHSZ; vf_keep_len = XCHSZ; vf_keep_off2 = vf_w_h * XCHSZ; vf_keep_len2 = XCHSZ; } while (0)

void h_substr_prep(void) { struct XST * s; size_t pos = VF_IN_SIZE(pos); size_t * len; VF_IN_SIZE(len); S_WIT_IN(); XSN(substr_prep)(s, pos, len); VF_END(); }
void h_resize0(void) { struct XST * s; size_t n = VF_IN_SIZE(n); S_WIT_IN(); XSN(__resize)(s, n); VF_END(); }
void h_erase(void) { struct XST * s; size_t pos = VF_IN_SIZE(pos), len = VF_IN_SIZE(len); S_WIT_IN(); XSN(erase)(s, pos, len); VF_END(); }
void h_prep_insert(void) { struct XST * s; size_t pos = VF_IN_SIZE(pos), len = VF_IN_SIZE(len); S_WIT_IN(); XSN(prep_insert)(s, pos, len); VF_END(); }
/* modular form: prep_insert is replaced, so realloc/memmove do not run; ghost window 1 follows the
 * inserted character k of the source in the memcpy */
#if defined(VF_INS_NEW) && defined(VF_ASSUMED_POST)
#define S_WIT_K() do { VF_IN_SIZE(k); vf_keep_off = vf_w_k * XCHSZ; } while (0)
#else
#define S_WIT_K() do { } while (0)
#endif
void h_insert_str_n(void) { struct XST * s; size_t pos = VF_IN_SIZE(pos), len = VF_IN_SIZE(len); const void * str; S_WIT_IN(); S_WIT_K(); XSN(insert_str_n)(s, pos, str, len); VF_END(); }
void h_insert(void) { struct XST * s, * ins; size_t pos = VF_IN_SIZE(pos); VF_IN_SIZE(len); S_WIT_IN(); VF_IN_SIZE(k); XSN(insert)(s, pos, ins); VF_END(); }
void h_insert_ch(void) { struct XST * s; size_t pos = VF_IN_SIZE(pos), len = VF_IN_SIZE(len); VF_IN_SIZE(k); S_WIT_IN(); XSN(insert_ch)(s, pos, len, (int)nondet_int()); VF_END(); }
void h_resize(void) { struct XST * s; size_t n = VF_IN_SIZE(n); VF_IN_SIZE(k); S_WIT_IN(); XSN(resize)(s, n); VF_END(); }
void h_substr(void) { struct XST * s, * sub; size_t pos = VF_IN_SIZE(pos), len = VF_IN_SIZE(len); S_WIT_IN(); XSN(substr)(s, pos, len, sub); VF_END(); }
#ifdef VF_G_reserve
void h_reserve(void) { struct XST * s; size_t n = VF_IN_SIZE(n); S_WIT_IN(); XSN(reserve)(s, n); VF_END(); }
void h_sclear(void) { struct XST * s; S_WIT_IN(); XSN(clear)(s); VF_END(); }
#endif
#ifdef VF_G_sswap
void h_sswap(void) { struct XST * a, * b; XSN(swap)(a, b); VF_END(); }
#endif
void h_at(void) { struct XST * s; size_t pos = VF_IN_SIZE(pos); S_WIT_IN(); XSN(at)(s, pos); VF_END(); }
void h_str(void) { struct XST * s; S_WIT_IN(); XSN(str)(s); VF_END(); }
#else /* VF_NATIVE ------------------------------------------------------------------------
 * Replay on the real code: a real string with `size` characters (a..z pattern) and capacity >= cap
 * is built through the public API, the operation is run, and the result is compared character by
 * character with a reference array given the same edit (every index, not only the ghost ones). */
#ifdef VF_S_NARROW
typedef char vf_ch;
#define XST  cstl_string
#define XSN(n) cstl_string_##n
#else
typedef wchar_t vf_ch;
#define XST  cstl_wstring
#define XSN(n) cstl_wstring_##n
#endif
#define VF_NMAX 4096
int vf_try(void (*fn)(void *), void * arg);
static struct XST vf_S, vf_T;
static vf_ch vf_ref[2 * VF_NMAX + 2];
static size_t vf_rn;
static void vf_nat_string(void)
{
    size_t i;
    VF_IN_SIZE(size); VF_IN_SIZE(cap);
    VF_ASSUME(vf_w_size < VF_NMAX && vf_w_cap < VF_NMAX);
    XSN(init)(&vf_S); XSN(init)(&vf_T);
#ifndef VF_S_EMPTY
    XSN(reserve)(&vf_S, vf_w_cap > vf_w_size + 1 ? vf_w_cap : vf_w_size + 1);
    XSN(resize)(&vf_S, vf_w_size);
    for (i = 0; i < vf_w_size; i++) { *XSN(at)(&vf_S, i) = (vf_ch)('a' + i % 26); vf_ref[i] = (vf_ch)('a' + i % 26); }
    vf_rn = vf_w_size;
#else
    vf_rn = 0;
#endif
    vf_ref[vf_rn] = 0;
}
static void vf_nat_compare(struct XST * s, const char * what)
{
    size_t i; int same = 1;
    const vf_ch * p = XSN(str)(s);
    VF_NCHECK(XSN(size)(s) == vf_rn, "size equals that of the reference string after the same edit");
    for (i = 0; i < vf_rn && i < XSN(size)(s); i++) if (p[i] != vf_ref[i]) same = 0;
    VF_NCHECK(same, "characters equal those of the reference string after the same edit");
    VF_NCHECK(p[XSN(size)(s)] == 0, "str points at size characters followed by a NUL");
    (void)what;
}
struct vf_call { int op; size_t a, b; vf_ch c; const vf_ch * str; };
static void vf_do(void * x)
{
    struct vf_call * c = x;
    switch (c->op) {
    case 0: XSN(erase)(&vf_S, c->a, c->b); break;
    case 1: XSN(prep_insert)(&vf_S, c->a, c->b); break;
    case 2: XSN(__resize)(&vf_S, c->a); break;
    case 3: XSN(insert_str_n)(&vf_S, c->a, c->str, c->b); break;
    case 4: XSN(insert_ch)(&vf_S, c->a, c->b, c->c); break;
    case 5: XSN(resize)(&vf_S, c->a); break;
    case 6: XSN(insert)(&vf_S, c->a, &vf_T); break;
    case 7: XSN(substr)(&vf_S, c->a, c->b, &vf_T); break;
    case 8: (void)XSN(at)(&vf_S, c->a); break;
    }
}
static void vf_ref_insert(size_t pos, const vf_ch * src, size_t n, int fill, vf_ch c)
{
    size_t i;
    for (i = vf_rn; i > pos; i--) vf_ref[i - 1 + n] = vf_ref[i - 1];
    for (i = 0; i < n; i++) vf_ref[pos + i] = fill ? c : src[i];
    vf_rn += n; vf_ref[vf_rn] = 0;
}
static void vf_run(int op, size_t a, size_t b, vf_ch ch, const vf_ch * str, int must_abort)
{
    struct vf_call c; int sig;
    c.op = op; c.a = a; c.b = b; c.c = ch; c.str = str;
    sig = vf_try(vf_do, &c);
    printf("op %d (a=%zu b=%zu): signal %d\n", op, a, b, sig);
    if (must_abort) { VF_NCHECK(sig == SIGABRT, "the call aborts as documented"); }
    else { VF_NCHECK(sig == 0, "the call returns normally"); }
}
void h_erase(void)
{
    size_t pos = VF_IN_SIZE(pos), len = VF_IN_SIZE(len), n, i;
    vf_nat_string();
    if (pos >= vf_rn) { vf_run(0, pos, len, 0, NULL, 1); return; }
    n = len > vf_rn - pos ? vf_rn - pos : len;
    vf_run(0, pos, len, 0, NULL, 0);
    for (i = pos; i + n < vf_rn; i++) vf_ref[i] = vf_ref[i + n];
    vf_rn -= n; vf_ref[vf_rn] = 0;
    vf_nat_compare(&vf_S, "erase");
}
void h_resize0(void)
{
    size_t n = VF_IN_SIZE(n), i, old;
    vf_nat_string();
    if (n >= VF_NMAX) { printf("NATIVE-PRECONDITION-NOT-MET: n too large to rebuild\n"); exit(3); }
    old = vf_rn;
    vf_run(2, n, 0, 0, NULL, 0);
    VF_NCHECK(XSN(size)(&vf_S) == n && XSN(str)(&vf_S)[n] == 0, "__resize: exactly n characters and the terminator");
    for (i = 0; i < n && i < old; i++) VF_NCHECK(XSN(str)(&vf_S)[i] == vf_ref[i], "__resize: the kept prefix is unchanged");
}
void h_resize(void)
{
    size_t n = VF_IN_SIZE(n), i;
    vf_nat_string();
    if (n >= VF_NMAX) { printf("NATIVE-PRECONDITION-NOT-MET: n too large to rebuild\n"); exit(3); }
    vf_run(5, n, 0, 0, NULL, 0);
    for (i = vf_rn; i < n; i++) vf_ref[i] = 0;
    vf_rn = n; vf_ref[n] = 0;
    vf_nat_compare(&vf_S, "resize");
}
void h_prep_insert(void)
{
    size_t pos = VF_IN_SIZE(pos), len = VF_IN_SIZE(len), i, old;
    vf_nat_string();
    if (len >= VF_NMAX) { printf("NATIVE-PRECONDITION-NOT-MET: len too large to rebuild\n"); exit(3); }
    if (pos > vf_rn) { vf_run(1, pos, len, 0, NULL, 1); return; }
    old = vf_rn;
    vf_run(1, pos, len, 0, NULL, 0);
    VF_NCHECK(XSN(size)(&vf_S) == old + len && XSN(str)(&vf_S)[old + len] == 0, "prep_insert: size grows by len, terminated");
    for (i = 0; i < pos; i++) VF_NCHECK(XSN(str)(&vf_S)[i] == vf_ref[i], "prep_insert: the prefix is kept");
    for (i = pos; i < old; i++) VF_NCHECK(XSN(str)(&vf_S)[i + len] == vf_ref[i], "prep_insert: the suffix moves up by len");
}
void h_insert_str_n(void)
{
    static vf_ch src[VF_NMAX];
    size_t pos = VF_IN_SIZE(pos), len = VF_IN_SIZE(len), i;
    vf_nat_string();
    if (len >= VF_NMAX || len == 0) { printf("NATIVE-PRECONDITION-NOT-MET: len\n"); exit(3); }
    for (i = 0; i < len; i++) src[i] = (vf_ch)(i % 3 == 1 ? 0 : 'A' + i % 26);     /* embedded NULs */
    if (pos > vf_rn) { vf_run(3, pos, len, 0, src, 1); return; }
    vf_run(3, pos, len, 0, src, 0);
    vf_ref_insert(pos, src, len, 0, 0);
    vf_nat_compare(&vf_S, "insert_str_n");
}
void h_insert_ch(void)
{
    size_t pos = VF_IN_SIZE(pos), len = VF_IN_SIZE(len);
    vf_nat_string();
    if (len >= VF_NMAX) { printf("NATIVE-PRECONDITION-NOT-MET: len\n"); exit(3); }
    if (pos > vf_rn) { vf_run(4, pos, len, 'Z', NULL, 1); return; }
    vf_run(4, pos, len, 'Z', NULL, 0);
    vf_ref_insert(pos, NULL, len, 1, 'Z');
    vf_nat_compare(&vf_S, "insert_ch");
}
void h_insert(void)
{
    static vf_ch src[VF_NMAX];
    size_t pos = VF_IN_SIZE(pos), len = VF_IN_SIZE(len), i;
    vf_nat_string();
    if (len >= VF_NMAX || len == 0) { printf("NATIVE-PRECONDITION-NOT-MET: len\n"); exit(3); }
    /* the other string object holds len characters, some of them NUL */
    XSN(resize)(&vf_T, len);
    for (i = 0; i < len; i++) { src[i] = (vf_ch)(i % 3 == 1 ? 0 : 'A' + i % 26); *XSN(at)(&vf_T, i) = src[i]; }
    if (pos > vf_rn) { vf_run(6, pos, 0, 0, NULL, 1); return; }
    vf_run(6, pos, 0, 0, NULL, 0);
    vf_ref_insert(pos, src, len, 0, 0);
    vf_nat_compare(&vf_S, "insert");
}
void h_substr(void)
{
    size_t pos = VF_IN_SIZE(pos), len = VF_IN_SIZE(len), n, i;
    vf_nat_string();
#ifndef VF_SUB_EMPTY
    XSN(resize)(&vf_T, 3);
#endif
    if (pos >= vf_rn) { vf_run(7, pos, len, 0, NULL, 1); return; }
    n = len > vf_rn - pos ? vf_rn - pos : len;
    vf_run(7, pos, len, 0, NULL, 0);
    VF_NCHECK(XSN(size)(&vf_T) == n && XSN(str)(&vf_T)[n] == 0, "substr: min(len, size - idx) characters, terminated");
    for (i = 0; i < n; i++) VF_NCHECK(XSN(str)(&vf_T)[i] == vf_ref[pos + i], "substr: the characters of the requested range");
    vf_nat_compare(&vf_S, "substr leaves the source alone");
}
void h_at(void)
{
    size_t pos = VF_IN_SIZE(pos);
    vf_nat_string();
    vf_run(8, pos, 0, 0, NULL, pos >= vf_rn);
}
struct vf_harness { const char * name; void (*fn)(void); };
struct vf_harness vf_harnesses[] = {
    { "h_erase", h_erase }, { "h_resize0", h_resize0 }, { "h_resize", h_resize }, { "h_prep_insert", h_prep_insert },
    { "h_insert_str_n", h_insert_str_n }, { "h_insert_ch", h_insert_ch }, { "h_insert", h_insert }, { "h_substr", h_substr }, { "h_at", h_at },
    { NULL, NULL } };
#endif
