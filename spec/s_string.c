/* Contracts for /repo/src/_string.c as instantiated by /repo/src/string.c (C10, C16).
 *
 * vector.c is included with its body: the string functions are verified down to realloc
 * (no assumed vector contracts).  memcpy/memmove are contract models (vf.h): every range
 * obligation "inside the string's storage" is decided for all sizes.
 */
#define VF_MODEL_MEMCPY
#define VF_KEEP_TWO
#ifdef VF_S_WIDE
#define VF_KEEP_UNIT 4
#else
#define VF_KEEP_UNIT 1
#endif
#include "vf.h"
#include <stdlib.h>
#include <string.h>
#include <wchar.h>

/* ghosts the injected vector.c loop contracts refer to (constructors are never set for strings) */
size_t vf_cons_calls, vf_dest_calls, vf_xtor_next;
_Bool vf_xtor_bad;

size_t vf_w_size, vf_w_cap, vf_w_len, vf_w_g, vf_w_h, vf_w_pos, vf_w_n, vf_w_k;

#ifndef VF_NATIVE
/* strlen / wcslen as contract models (assumed libc behaviour): the result is the index of a NUL
 * inside the live object, and no character before it is NUL -- stated for the ghost index
 * vf_len_k (arbitrary, so for every index).  CBMC's own models are unbounded loops. */
size_t vf_len_k;
#define VF_LEN_MODEL(NAME, T)                                                                     \
size_t NAME(const T * str)                                                                        \
{                                                                                                 \
    size_t n = nondet_size_t();                                                                   \
    __CPROVER_assert(__CPROVER_r_ok(str, sizeof(T)), #NAME ": argument points into a live object"); \
    __CPROVER_assume(n < (__CPROVER_OBJECT_SIZE(str) - __CPROVER_POINTER_OFFSET(str)) / sizeof(T)); \
    __CPROVER_assume(str[n] == 0);                                                                \
    __CPROVER_assume(!(vf_len_k < n) || str[vf_len_k] != 0);                                      \
    return n;                                                                                     \
}
VF_LEN_MODEL(strlen, char)
VF_LEN_MODEL(wcslen, wchar_t)
#endif
/* part of the loop invariant of insert_ch's fill loop (spec/loops/string.lc): the characters
 * outside the gap keep the values they had at loop entry (ghost indices g, h) */
#ifdef VF_S_EMPTY
#define VF_ICH_KEEP 1
#else
#define VF_ICH_D ((cstl_STRING_char_t *)s->v.elem.base)
#define VF_ICH_KEEP ((vf_w_g < __CPROVER_loop_entry(idx) ==> VF_ICH_D[vf_w_g] == __CPROVER_loop_entry(VF_ICH_D[vf_w_g])) && \
                     ((vf_w_h >= __CPROVER_loop_entry(idx) && vf_w_h < vf_w_size) ==> VF_ICH_D[vf_w_h + __CPROVER_loop_entry(cnt)] == __CPROVER_loop_entry(VF_ICH_D[vf_w_h + cnt])))
#endif
#ifdef VF_S_EMPTY
#define VF_RSZ_KEEP 1
#else
#define VF_RSZ_KEEP ((vf_w_g < n && vf_w_g < __CPROVER_loop_entry(sz)) ==> VF_ICH_D[vf_w_g] == __CPROVER_loop_entry(VF_ICH_D[vf_w_g]))
#endif
#include "vector.c"
#include "string.c"

#define ST   cstl_string
#define SN(n) cstl_string_##n
#define CH   char
#define NUL  '\0'
#define CHSZ 1
#ifdef VF_S_NARROW
#include "c_string_tpl.h"
#endif
#undef ST
#undef SN
#undef CH
#undef NUL
#undef CHSZ

#define ST   cstl_wstring
#define SN(n) cstl_wstring_##n
#define CH   wchar_t
#define NUL  L'\0'
#define CHSZ sizeof(wchar_t)
#ifdef VF_S_WIDE
#include "c_string_tpl.h"
#endif
#undef ST
#undef SN
#undef CH
#undef NUL
#undef CHSZ

#ifndef VF_NATIVE
#ifdef VF_S_NARROW
#define XST  cstl_string
#define XSN(n) cstl_string_##n
#define XCHSZ 1
#else
#define XST  cstl_wstring
#define XSN(n) cstl_wstring_##n
#define XCHSZ sizeof(wchar_t)
#endif
#define S_WIT_IN() do { VF_IN_SIZE(size); VF_IN_SIZE(cap); VF_IN_SIZE(g); VF_IN_SIZE(h); \
        vf_keep_off = vf_w_g * XCHSZ; vf_keep_len = XCHSZ; vf_keep_off2 = vf_w_h * XCHSZ; vf_keep_len2 = XCHSZ; } while (0)

void h_substr_prep(void) { struct XST * s; size_t pos = VF_IN_SIZE(pos); size_t * len; VF_IN_SIZE(len); S_WIT_IN(); XSN(substr_prep)(s, pos, len); VF_END(); }
void h_resize0(void) { struct XST * s; size_t n = VF_IN_SIZE(n); S_WIT_IN(); XSN(__resize)(s, n); VF_END(); }
void h_erase(void) { struct XST * s; size_t pos = VF_IN_SIZE(pos), len = VF_IN_SIZE(len); S_WIT_IN(); XSN(erase)(s, pos, len); VF_END(); }
void h_prep_insert(void) { struct XST * s; size_t pos = VF_IN_SIZE(pos), len = VF_IN_SIZE(len); S_WIT_IN(); XSN(prep_insert)(s, pos, len); VF_END(); }
/* modular form: prep_insert is replaced, so realloc/memmove do not run; ghost window 1 follows the
 * inserted character k of the source in the memcpy */
#if defined(VF_INS_NEW) && defined(VF_ASSUMED_POST)
#define S_WIT_K() do { VF_IN_SIZE(k); vf_keep_off = vf_w_k * XCHSZ; } while (0)
#else
#define S_WIT_K() do { } while (0)
#endif
void h_insert_str_n(void) { struct XST * s; size_t pos = VF_IN_SIZE(pos), len = VF_IN_SIZE(len); const void * str; S_WIT_IN(); S_WIT_K(); XSN(insert_str_n)(s, pos, str, len); VF_END(); }
void h_insert(void) { struct XST * s, * ins; size_t pos = VF_IN_SIZE(pos); VF_IN_SIZE(len); S_WIT_IN(); VF_IN_SIZE(k); XSN(insert)(s, pos, ins); VF_END(); }
void h_insert_ch(void) { struct XST * s; size_t pos = VF_IN_SIZE(pos), len = VF_IN_SIZE(len); VF_IN_SIZE(k); S_WIT_IN(); XSN(insert_ch)(s, pos, len, (int)nondet_int()); VF_END(); }
void h_resize(void) { struct XST * s; size_t n = VF_IN_SIZE(n); VF_IN_SIZE(k); S_WIT_IN(); XSN(resize)(s, n); VF_END(); }
void h_substr(void) { struct XST * s, * sub; size_t pos = VF_IN_SIZE(pos), len = VF_IN_SIZE(len); S_WIT_IN(); XSN(substr)(s, pos, len, sub); VF_END(); }
void h_at(void) { struct XST * s; size_t pos = VF_IN_SIZE(pos); S_WIT_IN(); XSN(at)(s, pos); VF_END(); }
void h_str(void) { struct XST * s; S_WIT_IN(); XSN(str)(s); VF_END(); }
#endif
