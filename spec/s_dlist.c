/* Contracts for /repo/src/dlist.c (C12, C15).
 *
 * S groups (step contracts, DFCC): the loop-free ring primitives on a symbolic neighbourhood.
 * B groups (bounded): the whole operations executed on concrete lists of every length 0..VF_MAXLEN,
 *   the reference sequence kept in an array, the ring compared with it in both directions after
 *   every operation.  The same harness text compiles natively (-DVF_NATIVE) for replay.
 *
 * The container-of casts of dlist.c are normalised in the scratch copy (vflib/prep.py).
 */
#include "vf.h"
#include <stdlib.h>
#include "dlist.c"

#ifndef VF_MAXLEN
#define VF_MAXLEN 5
#endif

struct vf_el { int key; int id; struct cstl_dlist_node n; int poisoned; };
#define VF_POOL 12
static struct vf_el vf_pool[VF_POOL];
#define NODE(i)   (&vf_pool[i].n)
#define ELEM(i)   ((void *)&vf_pool[i])

/* ------------------------------------------------------------------ S: step contracts */
#ifdef VF_STEP
/* insert n after p, all three of p, p->n, n distinct (the general case) */
#if VF_STEP == 1
static void __cstl_dlist_insert(struct cstl_dlist * const l, struct cstl_dlist_node * const p, struct cstl_dlist_node * const n)
REQUIRES(FRESH(l, sizeof(*l)) && FRESH(p, sizeof(*p)) && FRESH(n, sizeof(*n)) && FRESH(p->n, sizeof(*p)) && p->n->p == p)
REQUIRES(l->size < SIZE_MAX)
ASSIGNS(n->n, n->p, p->n, p->n->p, l->size)
ENSURES(p->n == n && n->p == p && n->n == OLD(p->n) && n->n->p == n && l->size == OLD(l->size) + 1)
ENSURES(p->p == OLD(p->p) && n->n->n == OLD(p->n->n))
;
#elif VF_STEP == 2
/* insert into the empty ring (p is the head and its own successor): see h_step below, checked on
 * an explicit object because a symbolic pointer cannot alias a fresh object in DFCC */
#elif VF_STEP == 3
/* insert after the last node: the successor of p is the head */
static void __cstl_dlist_insert(struct cstl_dlist * const l, struct cstl_dlist_node * const p, struct cstl_dlist_node * const n)
REQUIRES(FRESH(l, sizeof(*l)) && FRESH(p, sizeof(*p)) && FRESH(n, sizeof(*n)) && p->n == &l->h && l->h.p == p && l->size >= 1 && l->size < SIZE_MAX)
ASSIGNS(n->n, n->p, p->n, l->h.p, l->size)
ENSURES(p->n == n && n->p == p && n->n == &l->h && l->h.p == n && l->size == OLD(l->size) + 1 && l->h.n == OLD(l->h.n))
;
#elif VF_STEP == 4
/* erase n with distinct neighbours */
static void * __cstl_dlist_erase(struct cstl_dlist * const l, struct cstl_dlist_node * const n)
REQUIRES(FRESH(l, sizeof(*l)) && FRESH(n, sizeof(*n)) && FRESH(n->n, sizeof(*n)) && FRESH(n->p, sizeof(*n)) && n->n->p == n && n->p->n == n)
REQUIRES(l->size >= 1 && l->off == 8)
ASSIGNS(n->n->p, n->p->n, l->size)
ENSURES(OLD(n->p)->n == OLD(n->n) && OLD(n->n)->p == OLD(n->p) && l->size == OLD(l->size) - 1)
ENSURES(RESULT == (void *)((char *)n - 8) && n->n == OLD(n->n) && n->p == OLD(n->p))
;
#elif VF_STEP == 5
/* erase the only node: both neighbours are the head */
static void * __cstl_dlist_erase(struct cstl_dlist * const l, struct cstl_dlist_node * const n)
REQUIRES(FRESH(l, sizeof(*l)) && FRESH(n, sizeof(*n)) && n->n == &l->h && n->p == &l->h && l->h.n == n && l->h.p == n && l->size == 1 && l->off == 8)
ASSIGNS(l->h.n, l->h.p, l->size)
ENSURES(l->h.n == &l->h && l->h.p == &l->h && l->size == 0 && RESULT == (void *)((char *)n - 8))
;
#endif
#ifndef VF_NATIVE
void h_step(void)
{
    struct cstl_dlist * l; struct cstl_dlist_node * p, * n;
#if VF_STEP == 2
    struct cstl_dlist ll; struct cstl_dlist_node nn;
    ll.h.n = ll.h.p = &ll.h; ll.size = 0;
    __cstl_dlist_insert(&ll, &ll.h, &nn);
    VF_ASSERT(ll.h.n == &nn && ll.h.p == &nn && nn.p == &ll.h && nn.n == &ll.h && ll.size == 1, "insert into the empty ring links the node both ways");
#elif VF_STEP <= 3
    __cstl_dlist_insert(l, p, n);
#else
    __cstl_dlist_erase(l, n);
#endif
    VF_END();
}
#endif
#endif

/* ------------------------------------------------------------------ B: reference-sequence checks */
static int vf_cmp_key(const void * a, const void * b, void * p)
{
    (void)p;
    return vf_signmag(((const struct vf_el *)a)->key > ((const struct vf_el *)b)->key, ((const struct vf_el *)a)->key < ((const struct vf_el *)b)->key);
}

/* the ring equals ref[0..n) front to back, and its mirror back to front */
static void vf_check_list(struct cstl_dlist * l, const int * ref, int n, const char * what)
{
    struct cstl_dlist_node * c;
    int k;
    VF_ASSERT(cstl_dlist_size(l) == (size_t)n, "dlist: size equals the reference length");
    for (c = l->h.n, k = 0; k < n; k++, c = c->n) {
        VF_ASSERT(c == NODE(ref[k]), "dlist: forward traversal equals the reference sequence");
    }
    VF_ASSERT(c == &l->h, "dlist: forward traversal ends at the head");
    for (c = l->h.p, k = n - 1; k >= 0; k--, c = c->p) {
        VF_ASSERT(c == NODE(ref[k]), "dlist: backward traversal equals the mirrored reference sequence");
    }
    VF_ASSERT(c == &l->h, "dlist: backward traversal ends at the head");
    VF_ASSERT(cstl_dlist_front(l) == (n > 0 ? ELEM(ref[0]) : NULL), "dlist: front agrees");
    VF_ASSERT(cstl_dlist_back(l) == (n > 0 ? ELEM(ref[n - 1]) : NULL), "dlist: back agrees");
    (void)what;
}

static void vf_build(struct cstl_dlist * l, int * ref, int n, int first_id)
{
    int k;
    cstl_dlist_init(l, offsetof(struct vf_el, n));
    for (k = 0; k < n; k++) {
        vf_pool[first_id + k].id = first_id + k;
        vf_pool[first_id + k].poisoned = 0;
        cstl_dlist_push_back(l, ELEM(first_id + k));
        ref[k] = first_id + k;
    }
}

static int vf_visit_log[VF_POOL], vf_visit_n, vf_visit_stop_at, vf_visit_erase;
static struct cstl_dlist * vf_visit_list;
static int vf_visit(void * e, void * p)
{
    struct vf_el * el = e;
    (void)p;
    VF_ASSERT(!el->poisoned, "dlist: a visited element has not been handed over before");
    vf_visit_log[vf_visit_n] = el->id;
    if (vf_visit_erase) {
        /* the callback may remove (and release) the element it is given */
        cstl_dlist_erase(vf_visit_list, e);
        el->poisoned = 1;
        el->n.n = el->n.p = NULL;
    }
    return vf_visit_n++ == vf_visit_stop_at ? 7 : 0;
}
static int vf_clr_n;
static void vf_clr(void * e, void * p)
{
    struct vf_el * el = e;
    (void)p;
    VF_ASSERT(!el->poisoned, "clear: each element is handed over at most once");
    el->poisoned = 1;
    el->n.n = el->n.p = NULL;          /* the callback may free / reuse the memory */
    vf_clr_n++;
}

#if defined(VF_B) && VF_B == 1
/* push / pop / insert / erase / front / back / reverse on every list of length 0..VF_MAXLEN */
void h_b_basic(void)
{
    int len, pos, k;
    for (len = 0; len <= VF_MAXLEN; len++) {
        struct cstl_dlist l; int ref[VF_POOL]; int n;
        VF_SCEN(len > 0);
        /* push_front / push_back */
        vf_build(&l, ref, len, 0); n = len;
        cstl_dlist_push_front(&l, ELEM(10));
        for (k = n; k > 0; k--) ref[k] = ref[k - 1];
        ref[0] = 10; n++;
        vf_check_list(&l, ref, n, "push_front");
        cstl_dlist_push_back(&l, ELEM(11));
        ref[n++] = 11;
        vf_check_list(&l, ref, n, "push_back");
        /* pop_front / pop_back until empty, then once more */
        while (n > 0) {
            void * e = (n % 2) ? cstl_dlist_pop_front(&l) : cstl_dlist_pop_back(&l);
            if (n % 2) { VF_ASSERT(e == ELEM(ref[0]), "dlist: pop_front returns the first element"); for (k = 0; k + 1 < n; k++) ref[k] = ref[k + 1]; }
            else { VF_ASSERT(e == ELEM(ref[n - 1]), "dlist: pop_back returns the last element"); }
            n--;
            vf_check_list(&l, ref, n, "pop");
        }
        VF_ASSERT(cstl_dlist_pop_front(&l) == NULL && cstl_dlist_pop_back(&l) == NULL, "dlist: pops on an empty list return NULL");
        vf_check_list(&l, ref, 0, "pop on empty");
        /* insert after every position, erase every position */
        for (pos = 0; pos < len; pos++) {
            vf_build(&l, ref, len, 0); n = len;
            cstl_dlist_insert(&l, ELEM(ref[pos]), ELEM(10));
            for (k = n; k > pos + 1; k--) ref[k] = ref[k - 1];
            ref[pos + 1] = 10; n++;
            vf_check_list(&l, ref, n, "insert");
            cstl_dlist_erase(&l, ELEM(ref[pos]));
            for (k = pos; k + 1 < n; k++) ref[k] = ref[k + 1];
            n--;
            vf_check_list(&l, ref, n, "erase");
        }
        /* reverse */
        vf_build(&l, ref, len, 0);
        cstl_dlist_reverse(&l);
        for (k = 0; k < len / 2; k++) { int t = ref[k]; ref[k] = ref[len - 1 - k]; ref[len - 1 - k] = t; }
        vf_check_list(&l, ref, len, "reverse");
        cstl_dlist_push_back(&l, ELEM(10)); ref[len] = 10;
        vf_check_list(&l, ref, len + 1, "push_back after reverse");
        VF_REACH(len == VF_MAXLEN, "longest list exercised");
    }
    VF_END();
}
#endif

#if defined(VF_B) && VF_B == 2
/* concat and swap over every pair of lengths; clear; foreach (both directions, early stop, erasing callback); find */
void h_b_multi(void)
{
    int la, lb, k, stop, dir;
    for (la = 0; la <= VF_MAXLEN; la++) {
        for (lb = 0; lb <= 3; lb++) {
            struct cstl_dlist a, b; int ra[VF_POOL], rb[VF_POOL], rt[VF_POOL];
            VF_SCEN(la > 0 && lb > 0);
            vf_build(&a, ra, la, 0); vf_build(&b, rb, lb, 6);
            cstl_dlist_concat(&a, &b);
            for (k = 0; k < lb; k++) ra[la + k] = rb[k];
            vf_check_list(&a, ra, la + lb, "concat dst");
            vf_check_list(&b, rb, 0, "concat src is empty");
            cstl_dlist_push_back(&b, ELEM(10)); rb[0] = 10;
            vf_check_list(&b, rb, 1, "concat src is usable");
            vf_build(&a, ra, la, 0); vf_build(&b, rb, lb, 6);
            cstl_dlist_swap(&a, &b);
            vf_check_list(&a, rb, lb, "swap a");
            vf_check_list(&b, ra, la, "swap b");
            (void)rt;
        }
        {
            struct cstl_dlist a; int ra[VF_POOL];
            /* concat with itself is a no-op */
            vf_build(&a, ra, la, 0);
            cstl_dlist_concat(&a, &a);
            vf_check_list(&a, ra, la, "self concat");
            /* clear */
            vf_clr_n = 0;
            cstl_dlist_clear(&a, vf_clr);
            VF_ASSERT(vf_clr_n == la, "clear: the callback runs exactly once per element");
            for (k = 0; k < la; k++) VF_ASSERT(vf_pool[ra[k]].poisoned, "clear: every element was handed over");
            VF_ASSERT(a.h.n == &a.h && a.h.p == &a.h && a.size == 0, "clear: the list equals a freshly initialised one");
            vf_build(&a, ra, 3, 0);
            vf_check_list(&a, ra, 3, "refill after clear");
            /* foreach: both directions, every stop position, with and without removal of the visited element */
            for (dir = 0; dir < 2; dir++) {
                for (stop = 0; stop <= la; stop++) {
                    for (vf_visit_erase = 0; vf_visit_erase < 2; vf_visit_erase++) {
                        int res, expect_n = stop < la ? stop + 1 : la;
                        vf_build(&a, ra, la, 0);
                        vf_visit_list = &a; vf_visit_n = 0; vf_visit_stop_at = stop;
                        res = cstl_dlist_foreach(&a, vf_visit, NULL, dir ? CSTL_DLIST_FOREACH_DIR_REV : CSTL_DLIST_FOREACH_DIR_FWD);
                        VF_ASSERT(res == (stop < la ? 7 : 0), "foreach: returns the first non-zero visit result (0 if none)");
                        VF_ASSERT(vf_visit_n == expect_n, "foreach: stops at the first non-zero result");
                        for (k = 0; k < expect_n; k++) VF_ASSERT(vf_visit_log[k] == (dir ? ra[la - 1 - k] : ra[k]), "foreach: visits in sequence order");
                        if (vf_visit_erase) {
                            VF_ASSERT(cstl_dlist_size(&a) == (size_t)(la - expect_n), "foreach: removal of visited elements is tolerated");
                        }
                    }
                }
            }
            vf_visit_erase = 0;
        }
        VF_REACH(la == VF_MAXLEN, "longest list exercised");
    }
    VF_END();
}
#endif

#if defined(VF_B) && VF_B == 3
/* sort and find: every assignment of keys {0,1,2} to lists of length 0..VF_SORTLEN */
#ifndef VF_SORTLEN
#define VF_SORTLEN 4
#endif
void h_b_sort(void)
{
    int len, code, k, j;
    for (len = 0; len <= VF_SORTLEN; len++) {
        int ncodes = 1;
        for (k = 0; k < len; k++) ncodes *= 3;
        for (code = 0; code < ncodes; code++) {
            struct cstl_dlist l; int ref[VF_POOL], c = code;
            VF_SCEN(len > 1);
            vf_build(&l, ref, len, 0);
            for (k = 0; k < len; k++) { vf_pool[k].key = c % 3; c /= 3; }
            /* find: first match in each direction */
            for (j = 0; j < 3; j++) {
                struct vf_el probe; void * f; int first = -1, last = -1;
                probe.key = j;
                for (k = 0; k < len; k++) if (vf_pool[k].key == j) { if (first < 0) first = k; last = k; }
                f = cstl_dlist_find(&l, &probe, vf_cmp_key, NULL, CSTL_DLIST_FOREACH_DIR_FWD);
                VF_ASSERT(f == (first < 0 ? NULL : ELEM(first)), "find: first match front to back");
                f = cstl_dlist_find(&l, &probe, vf_cmp_key, NULL, CSTL_DLIST_FOREACH_DIR_REV);
                VF_ASSERT(f == (last < 0 ? NULL : ELEM(last)), "find: first match back to front");
            }
            cstl_dlist_sort(&l, vf_cmp_key, NULL);
            /* reference: stable sort of the ids by key */
            {
                int n = 0;
                for (j = 0; j < 3; j++) for (k = 0; k < len; k++) if (vf_pool[k].key == j) ref[n++] = k;
            }
            vf_check_list(&l, ref, len, "sort: ordered, stable permutation of the same elements");
            cstl_dlist_push_back(&l, ELEM(10)); ref[len] = 10;
            vf_check_list(&l, ref, len + 1, "push_back after sort");
        }
        VF_REACH(len == VF_SORTLEN, "longest list sorted");
    }
    VF_END();
}
#endif

#ifdef VF_NATIVE
struct vf_harness { const char * name; void (*fn)(void); };
struct vf_harness vf_harnesses[] = {
#if defined(VF_B) && VF_B == 1
    { "h_b_basic", h_b_basic },
#elif defined(VF_B) && VF_B == 2
    { "h_b_multi", h_b_multi },
#elif defined(VF_B) && VF_B == 3
    { "h_b_sort", h_b_sort },
#endif
    { NULL, NULL }
};
#endif
