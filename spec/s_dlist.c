/* Contracts for /repo/src/dlist.c (C12, C15).
 *
 * S groups (step contracts, DFCC): the loop-free ring primitives on a symbolic neighbourhood.
 * B groups (bounded): the whole operations executed on concrete lists of every length 0..VF_MAXLEN,
 *   the reference sequence kept in an array, the ring compared with it in both directions after
 *   every operation.  The same harness text compiles natively (-DVF_NATIVE) for replay.
 *
 * The container-of casts of dlist.c are normalised in the scratch copy (vflib/prep.py).
 */
#include "vf.h"
#include <stdlib.h>
#include "dlist.c"

#ifndef VF_MAXLEN
#define VF_MAXLEN 5
#endif

struct vf_el { int key; int id; struct cstl_dlist_node n; int poisoned; };
#define VF_POOL 12
static struct vf_el vf_pool[VF_POOL];
#define NODE(i)   (&vf_pool[i].n)
#define ELEM(i)   ((void *)&vf_pool[i])

/* ------------------------------------------------------------------ S: step contracts */
#ifdef VF_STEP
/* insert n after p, all three of p, p->n, n distinct (the general case) */
#if VF_STEP == 1
static void __cstl_dlist_insert(struct cstl_dlist * const l, struct cstl_dlist_node * const p, struct cstl_dlist_node * const n)
REQUIRES(FRESH(l, sizeof(*l)) && FRESH(p, sizeof(*p)) && FRESH(n, sizeof(*n)) && FRESH(p->n, sizeof(*p)) && p->n->p == p)
REQUIRES(l->size < SIZE_MAX)
ASSIGNS(n->n, n->p, p->n, p->n->p, l->size)
ENSURES(p->n == n && n->p == p && n->n == OLD(p->n) && n->n->p == n && l->size == OLD(l->size) + 1)
ENSURES(p->p == OLD(p->p) && n->n->n == OLD(p->n->n))
;
#elif VF_STEP == 2
/* insert into the empty ring (p is the head and its own successor): see h_step below, checked on
 * an explicit object because a symbolic pointer cannot alias a fresh object in DFCC */
#elif VF_STEP == 3
/* insert after the last node: the successor of p is the head */
static void __cstl_dlist_insert(struct cstl_dlist * const l, struct cstl_dlist_node * const p, struct cstl_dlist_node * const n)
REQUIRES(FRESH(l, sizeof(*l)) && FRESH(p, sizeof(*p)) && FRESH(n, sizeof(*n)) && p->n == &l->h && l->h.p == p && l->size >= 1 && l->size < SIZE_MAX)
ASSIGNS(n->n, n->p, p->n, l->h.p, l->size)
ENSURES(p->n == n && n->p == p && n->n == &l->h && l->h.p == n && l->size == OLD(l->size) + 1 && l->h.n == OLD(l->h.n))
;
#elif VF_STEP == 4
/* erase n with distinct neighbours */
static void * __cstl_dlist_erase(struct cstl_dlist * const l, struct cstl_dlist_node * const n)
REQUIRES(FRESH(l, sizeof(*l)) && FRESH(n, sizeof(*n)) && FRESH(n->n, sizeof(*n)) && FRESH(n->p, sizeof(*n)) && n->n->p == n && n->p->n == n)
REQUIRES(l->size >= 1 && l->off == 8)
ASSIGNS(n->n->p, n->p->n, l->size)
ENSURES(OLD(n->p)->n == OLD(n->n) && OLD(n->n)->p == OLD(n->p) && l->size == OLD(l->size) - 1)
ENSURES(RESULT == (void *)((char *)n - 8) && n->n == OLD(n->n) && n->p == OLD(n->p))
;
#elif VF_STEP == 5
/* erase the only node: both neighbours are the head */
static void * __cstl_dlist_erase(struct cstl_dlist * const l, struct cstl_dlist_node * const n)
REQUIRES(FRESH(l, sizeof(*l)) && FRESH(n, sizeof(*n)) && n->n == &l->h && n->p == &l->h && l->h.n == n && l->h.p == n && l->size == 1 && l->off == 8)
ASSIGNS(l->h.n, l->h.p, l->size)
ENSURES(l->h.n == &l->h && l->h.p == &l->h && l->size == 0 && RESULT == (void *)((char *)n - 8))
;
#endif
#ifndef VF_NATIVE
void h_step(void)
{
    struct cstl_dlist * l; struct cstl_dlist_node * p, * n;
#if VF_STEP == 2
    struct cstl_dlist ll; struct cstl_dlist_node nn;
    ll.h.n = ll.h.p = &ll.h; ll.size = 0;
    __cstl_dlist_insert(&ll, &ll.h, &nn);
    VF_ASSERT(ll.h.n == &nn && ll.h.p == &nn && nn.p == &ll.h && nn.n == &ll.h && ll.size == 1, "insert into the empty ring links the node both ways");
#elif VF_STEP <= 3
    __cstl_dlist_insert(l, p, n);
#else
    __cstl_dlist_erase(l, n);
#endif
    VF_END();
}
#endif
#endif


/* ------------------------------------------------------------------ S: concat / swap on ring neighbourhoods
 * A ring with k nodes is represented by its head, its first node F and last node T (F == T for
 * k == 1, F <-> T adjacent for k == 2); for k >= 3 the unknown middle is a pair of sentinel nodes
 * (F->n = &M1, T->p = &M2) that must stay untouched, and the size is any value >= 3.  So the
 * statement holds for rings of every length: concat splices exactly at the two heads, swap
 * re-points exactly the first and last node at the new head. */
#if defined(VF_STEP2) && !defined(VF_NATIVE)
struct vf_ring { struct cstl_dlist l; struct cstl_dlist_node F, T, M1, M2; int k; size_t size; };
static void vf_ring_make(struct vf_ring * r, int k, size_t big)
{
    r->k = k;
    r->l.off = 8;
    r->M1.n = r->M1.p = r->M2.n = r->M2.p = NULL;
    r->F.n = r->F.p = r->T.n = r->T.p = NULL;
    if (k == 0) { r->l.h.n = r->l.h.p = &r->l.h; r->size = 0; }
    else if (k == 1) { r->l.h.n = r->l.h.p = &r->F; r->F.n = r->F.p = &r->l.h; r->size = 1; }
    else {
        r->l.h.n = &r->F; r->l.h.p = &r->T; r->F.p = &r->l.h; r->T.n = &r->l.h;
        if (k == 2) { r->F.n = &r->T; r->T.p = &r->F; r->size = 2; }
        else { r->F.n = &r->M1; r->T.p = &r->M2; r->size = big; }
    }
    r->l.size = r->size;
}
#define RFIRST(r) ((r)->k == 0 ? NULL : &(r)->F)
#define RLAST(r)  ((r)->k == 0 ? NULL : ((r)->k == 1 ? &(r)->F : &(r)->T))
static void vf_ring_untouched_middle(struct vf_ring * r)
{
    VF_ASSERT(r->M1.n == NULL && r->M1.p == NULL && r->M2.n == NULL && r->M2.p == NULL, "dlist step: the unknown middle of a ring is not touched");
    if (r->k >= 3) {
        VF_ASSERT(r->F.n == &r->M1 && r->T.p == &r->M2, "dlist step: the inner links of the first and last node are kept");
    } else if (r->k == 2) {
        VF_ASSERT(r->F.n == &r->T && r->T.p == &r->F, "dlist step: the link between the two nodes is kept");
    }
}
/* the ring of `r` hangs under head `h` with the given size */
static void vf_ring_under(struct vf_ring * r, struct cstl_dlist * h, size_t size)
{
    VF_ASSERT(h->size == size, "dlist step: size");
    if (r->k == 0) {
        VF_ASSERT(h->h.n == &h->h && h->h.p == &h->h, "dlist step: an empty ring is the head linked to itself");
    } else {
        VF_ASSERT(h->h.n == RFIRST(r) && h->h.p == RLAST(r) && RFIRST(r)->p == &h->h && RLAST(r)->n == &h->h,
                  "dlist step: first and last node are linked with the head both ways");
    }
}
void h_step2(void)
{
    int kd, ks;
    for (kd = 0; kd <= 3; kd++) {
        for (ks = 0; ks <= 3; ks++) {
            struct vf_ring d, s;
            size_t bd = nondet_size_t(), bs = nondet_size_t();
            __CPROVER_assume(bd >= 3 && bs >= 3 && bd <= SIZE_MAX / 2 && bs <= SIZE_MAX / 2);
            vf_ring_make(&d, kd, bd);
            vf_ring_make(&s, ks, bs);
#if VF_STEP2 == 2
            s.l.off = 24;            /* lists of different element layouts: swap exchanges the offsets too */
#endif
#if VF_STEP2 == 1
            cstl_dlist_concat(&d.l, &s.l);
            vf_ring_untouched_middle(&d); vf_ring_untouched_middle(&s);
            VF_ASSERT(d.l.off == 8 && s.l.off == 8, "concat: offsets kept");
            if (ks == 0) {
                vf_ring_under(&d, &d.l, d.size);
                vf_ring_under(&s, &s.l, 0);
            } else {
                /* d's ring followed by s's ring under d's head; s empty and usable */
                VF_ASSERT(d.l.size == d.size + s.size, "concat: the destination has all the elements");
                VF_ASSERT(s.l.size == 0 && s.l.h.n == &s.l.h && s.l.h.p == &s.l.h, "concat: the source is left empty and usable");
                VF_ASSERT(d.l.h.n == (kd == 0 ? RFIRST(&s) : RFIRST(&d)) && d.l.h.n->p == &d.l.h, "concat: the first element is the destination's first (or the source's, if it was empty)");
                VF_ASSERT(d.l.h.p == RLAST(&s) && RLAST(&s)->n == &d.l.h, "concat: the last element is the source's last");
                if (kd > 0) {
                    VF_ASSERT(RLAST(&d)->n == RFIRST(&s) && RFIRST(&s)->p == RLAST(&d), "concat: the source's first element follows the destination's last, both ways");
                }
            }
#else
            cstl_dlist_swap(&d.l, &s.l);
            vf_ring_untouched_middle(&d); vf_ring_untouched_middle(&s);
            vf_ring_under(&s, &d.l, s.size);
            vf_ring_under(&d, &s.l, d.size);
            VF_ASSERT(d.l.off == 24 && s.l.off == 8, "swap: offsets exchanged");
#endif
            VF_REACH(kd == 3 && ks == 3, "largest neighbourhood reached");
        }
    }
#if VF_STEP2 == 1
    {   /* concat onto itself is a no-op (swap with itself is outside the domain: cstl_swap copies with memcpy) */
        struct vf_ring d;
        vf_ring_make(&d, 2, 2);
        cstl_dlist_concat(&d.l, &d.l);
        vf_ring_under(&d, &d.l, 2); vf_ring_untouched_middle(&d);
    }
#endif
    VF_END();
}
#endif


/* ------------------------------------------------------------------ P: the loop-free public wrappers
 * push/pop at both ends, insert, erase, front, back hand the ring primitives exactly the right
 * neighbour (the head for the front, the head's predecessor for the back, the node of the given
 * element otherwise) and convert between elements and nodes with the list's offset; pops and
 * front/back of an empty list return NULL without touching anything.  The primitives are replaced
 * by contracts that record / check their arguments (their own effect: dlist.step*). */
#if defined(VF_G_wrap) && !defined(VF_NATIVE)
struct cstl_dlist * vf_wl; struct cstl_dlist_node * vf_wp, * vf_wn; size_t vf_wcalls_i, vf_wcalls_e;
static void __cstl_dlist_insert(struct cstl_dlist * const l, struct cstl_dlist_node * const p, struct cstl_dlist_node * const n)
REQUIRES(l == vf_wl && p == vf_wp && n == vf_wn)
ASSIGNS(vf_wcalls_i)
ENSURES(vf_wcalls_i == OLD(vf_wcalls_i) + 1)
;
static void * __cstl_dlist_erase(struct cstl_dlist * const l, struct cstl_dlist_node * const n)
REQUIRES(l == vf_wl && n == vf_wn)
ASSIGNS(vf_wcalls_e)
ENSURES(vf_wcalls_e == OLD(vf_wcalls_e) + 1 && RESULT == (void *)((char *)n - 16))
;
void * nondet_ptr(void);
void h_wrap(void)
{
    static struct cstl_dlist l; static struct { long a, b; struct cstl_dlist_node n; } E, PE, F, B;
    int op = nondet_int(); void * r;
    l.off = 16; l.size = nondet_size_t();
    l.h.n = l.size ? &F.n : &l.h; l.h.p = l.size ? &B.n : &l.h;
    vf_wl = &l; vf_wcalls_i = vf_wcalls_e = 0;
    __CPROVER_assume(op >= 0 && op <= 7);
    switch (op) {
    case 0: vf_wp = &l.h; vf_wn = &E.n; cstl_dlist_push_front(&l, &E); VF_ASSERT(vf_wcalls_i == 1 && vf_wcalls_e == 0, "push_front: one insert after the head"); break;
    case 1: vf_wp = l.h.p; vf_wn = &E.n; cstl_dlist_push_back(&l, &E); VF_ASSERT(vf_wcalls_i == 1 && vf_wcalls_e == 0, "push_back: one insert after the head's predecessor (the last node)"); break;
    case 2: vf_wp = &PE.n; vf_wn = &E.n; cstl_dlist_insert(&l, &PE, &E); VF_ASSERT(vf_wcalls_i == 1 && vf_wcalls_e == 0, "insert: one insert after the node of the given element"); break;
    case 3: vf_wn = &E.n; cstl_dlist_erase(&l, &E); VF_ASSERT(vf_wcalls_e == 1 && vf_wcalls_i == 0, "erase: one erase of the node of the given element"); break;
    case 4: vf_wn = l.h.n; r = cstl_dlist_pop_front(&l);
            VF_ASSERT(l.size ? (vf_wcalls_e == 1 && r == (void *)&F) : (vf_wcalls_e == 0 && r == NULL), "pop_front: the first element is erased and returned; NULL and no erase on an empty list"); break;
    case 5: vf_wn = l.h.p; r = cstl_dlist_pop_back(&l);
            VF_ASSERT(l.size ? (vf_wcalls_e == 1 && r == (void *)&B) : (vf_wcalls_e == 0 && r == NULL), "pop_back: the last element is erased and returned; NULL and no erase on an empty list"); break;
    case 6: r = cstl_dlist_front(&l); VF_ASSERT(r == (l.size ? (void *)&F : NULL) && vf_wcalls_e == 0 && vf_wcalls_i == 0, "front: the first element or NULL"); break;
    case 7: r = cstl_dlist_back(&l); VF_ASSERT(r == (l.size ? (void *)&B : NULL) && vf_wcalls_e == 0 && vf_wcalls_i == 0, "back: the last element or NULL"); break;
    }
    VF_REACH(op == 7, "last wrapper reached");
    VF_END();
}
#endif


/* ------------------------------------------------------------------ P: one step of find
 * the visited element is compared with the probe (with the caller's private pointer) and
 * becomes the result, stopping the walk, exactly when the comparison says "equal" */
#if defined(VF_G_find_visit) && !defined(VF_NATIVE)
size_t vf_fv_calls; _Bool vf_fv_bad; int vf_fv_ret; const void * vf_fv_probe, * vf_fv_e; void * vf_fv_priv;
int vf_fv_cmp(const void * a, const void * b, void * p)
{
    vf_fv_calls++;
    /* (either argument order: the documentation fixes only "returns 0 for a match") */
    if (!((a == vf_fv_probe && b == vf_fv_e) || (a == vf_fv_e && b == vf_fv_probe)) || p != vf_fv_priv) {
        vf_fv_bad = 1;
    }
    vf_fv_ret = nondet_int();
    return vf_fv_ret;
}
cstl_compare_func_t * const vf_anchor_fv_cmp = vf_fv_cmp;
#define LF(p) ((struct cstl_dlist_find_priv *)(p))
static int cstl_dlist_find_visit(void * const e, void * const p)
REQUIRES(FRESH(p, sizeof(struct cstl_dlist_find_priv)) && LF(p)->cmp == vf_fv_cmp && vf_fv_calls == 0 && !vf_fv_bad)
REQUIRES(vf_fv_probe == LF(p)->e && vf_fv_e == e && vf_fv_priv == LF(p)->p)
ASSIGNS(LF(p)->e, vf_fv_calls, vf_fv_bad, vf_fv_ret)
ENSURES(vf_fv_calls == 1 && !vf_fv_bad)
ENSURES(vf_fv_ret == 0 ? (RESULT == 1 && LF(p)->e == e) : (RESULT == 0 && LF(p)->e == OLD(LF(p)->e)))
;
const void * nondet_cptr(void); void * nondet_ptr(void);
void h_find_visit(void) { void * e = nondet_ptr(), * p; vf_fv_probe = nondet_cptr(); vf_fv_e = e; vf_fv_priv = nondet_ptr(); cstl_dlist_find_visit(e, p); VF_END(); }
#endif

/* ------------------------------------------------------------------ B: reference-sequence checks */
static int vf_cmp_key(const void * a, const void * b, void * p)
{
    VF_ASSERT(p == VF_CMP_PRIV, "the comparison function is handed the caller's private pointer");
    return vf_signmag(((const struct vf_el *)a)->key > ((const struct vf_el *)b)->key, ((const struct vf_el *)a)->key < ((const struct vf_el *)b)->key);
}

/* the ring equals ref[0..n) front to back, and its mirror back to front */
static void vf_check_list(struct cstl_dlist * l, const int * ref, int n, const char * what)
{
    struct cstl_dlist_node * c;
    int k;
    VF_ASSERT(cstl_dlist_size(l) == (size_t)n, "dlist: size equals the reference length");
    for (c = l->h.n, k = 0; k < n; k++, c = c->n) {
        VF_ASSERT(c == NODE(ref[k]), "dlist: forward traversal equals the reference sequence");
    }
    VF_ASSERT(c == &l->h, "dlist: forward traversal ends at the head");
    for (c = l->h.p, k = n - 1; k >= 0; k--, c = c->p) {
        VF_ASSERT(c == NODE(ref[k]), "dlist: backward traversal equals the mirrored reference sequence");
    }
    VF_ASSERT(c == &l->h, "dlist: backward traversal ends at the head");
    VF_ASSERT(cstl_dlist_front(l) == (n > 0 ? ELEM(ref[0]) : NULL), "dlist: front agrees");
    VF_ASSERT(cstl_dlist_back(l) == (n > 0 ? ELEM(ref[n - 1]) : NULL), "dlist: back agrees");
    (void)what;
}

static void vf_build(struct cstl_dlist * l, int * ref, int n, int first_id)
{
    int k;
    cstl_dlist_init(l, offsetof(struct vf_el, n));
    for (k = 0; k < n; k++) {
        vf_pool[first_id + k].id = first_id + k;
        vf_pool[first_id + k].poisoned = 0;
        cstl_dlist_push_back(l, ELEM(first_id + k));
        ref[k] = first_id + k;
    }
}

static int vf_visit_log[VF_POOL], vf_visit_n, vf_visit_stop_at, vf_visit_erase;
static struct cstl_dlist * vf_visit_list;
static int vf_visit(void * e, void * p)
{
    struct vf_el * el = e;
    (void)p;
    VF_ASSERT(!el->poisoned, "dlist: a visited element has not been handed over before");
    vf_visit_log[vf_visit_n] = el->id;
    if (vf_visit_erase) {
        /* the callback may remove (and release) the element it is given */
        cstl_dlist_erase(vf_visit_list, e);
        el->poisoned = 1;
        el->n.n = el->n.p = NULL;
    }
    return vf_visit_n++ == vf_visit_stop_at ? VF_STOPVAL(vf_visit_stop_at) : 0;
}
static int vf_clr_n;
static void vf_clr(void * e, void * p)
{
    struct vf_el * el = e;
    (void)p;
    VF_ASSERT(!el->poisoned, "clear: each element is handed over at most once");
    el->poisoned = 1;
    el->n.n = el->n.p = NULL;          /* the callback may free / reuse the memory */
    vf_clr_n++;
}

#if defined(VF_B) && VF_B == 1
/* push / pop / insert / erase / front / back / reverse on every list of length 0..VF_MAXLEN */
void h_b_basic(void)
{
    int len, pos, k;
    for (len = 0; len <= VF_MAXLEN; len++) {
        struct cstl_dlist l; int ref[VF_POOL]; int n;
        VF_SCEN(len > 0);
        /* push_front / push_back */
        vf_build(&l, ref, len, 0); n = len;
        cstl_dlist_push_front(&l, ELEM(10));
        for (k = n; k > 0; k--) ref[k] = ref[k - 1];
        ref[0] = 10; n++;
        vf_check_list(&l, ref, n, "push_front");
        cstl_dlist_push_back(&l, ELEM(11));
        ref[n++] = 11;
        vf_check_list(&l, ref, n, "push_back");
        /* pop_front / pop_back until empty, then once more */
        while (n > 0) {
            void * e = (n % 2) ? cstl_dlist_pop_front(&l) : cstl_dlist_pop_back(&l);
            if (n % 2) { VF_ASSERT(e == ELEM(ref[0]), "dlist: pop_front returns the first element"); for (k = 0; k + 1 < n; k++) ref[k] = ref[k + 1]; }
            else { VF_ASSERT(e == ELEM(ref[n - 1]), "dlist: pop_back returns the last element"); }
            n--;
            vf_check_list(&l, ref, n, "pop");
        }
        VF_ASSERT(cstl_dlist_pop_front(&l) == NULL && cstl_dlist_pop_back(&l) == NULL, "dlist: pops on an empty list return NULL");
        vf_check_list(&l, ref, 0, "pop on empty");
        /* insert after every position, erase every position */
        for (pos = 0; pos < len; pos++) {
            vf_build(&l, ref, len, 0); n = len;
            cstl_dlist_insert(&l, ELEM(ref[pos]), ELEM(10));
            for (k = n; k > pos + 1; k--) ref[k] = ref[k - 1];
            ref[pos + 1] = 10; n++;
            vf_check_list(&l, ref, n, "insert");
            cstl_dlist_erase(&l, ELEM(ref[pos]));
            for (k = pos; k + 1 < n; k++) ref[k] = ref[k + 1];
            n--;
            vf_check_list(&l, ref, n, "erase");
        }
        /* reverse */
        vf_build(&l, ref, len, 0);
        cstl_dlist_reverse(&l);
        for (k = 0; k < len / 2; k++) { int t = ref[k]; ref[k] = ref[len - 1 - k]; ref[len - 1 - k] = t; }
        vf_check_list(&l, ref, len, "reverse");
        cstl_dlist_push_back(&l, ELEM(10)); ref[len] = 10;
        vf_check_list(&l, ref, len + 1, "push_back after reverse");
        VF_REACH(len == VF_MAXLEN, "longest list exercised");
    }
    VF_END();
}
#endif

#if defined(VF_B) && VF_B == 2
/* concat and swap over every pair of lengths; clear; foreach (both directions, early stop, erasing callback); find */
void h_b_multi(void)
{
    int la, lb, k, stop, dir;
    for (la = 0; la <= VF_MAXLEN; la++) {
        for (lb = 0; lb <= 3; lb++) {
            struct cstl_dlist a, b; int ra[VF_POOL], rb[VF_POOL], rt[VF_POOL];
            VF_SCEN(la > 0 && lb > 0);
            vf_build(&a, ra, la, 0); vf_build(&b, rb, lb, 6);
            cstl_dlist_concat(&a, &b);
            for (k = 0; k < lb; k++) ra[la + k] = rb[k];
            vf_check_list(&a, ra, la + lb, "concat dst");
            vf_check_list(&b, rb, 0, "concat src is empty");
            cstl_dlist_push_back(&b, ELEM(10)); rb[0] = 10;
            vf_check_list(&b, rb, 1, "concat src is usable");
            vf_build(&a, ra, la, 0); vf_build(&b, rb, lb, 6);
            cstl_dlist_swap(&a, &b);
            vf_check_list(&a, rb, lb, "swap a");
            vf_check_list(&b, ra, la, "swap b");
            (void)rt;
        }
        {
            struct cstl_dlist a; int ra[VF_POOL];
            /* concat with itself is a no-op */
            vf_build(&a, ra, la, 0);
            cstl_dlist_concat(&a, &a);
            vf_check_list(&a, ra, la, "self concat");
            /* clear */
            vf_clr_n = 0;
            cstl_dlist_clear(&a, vf_clr);
            VF_ASSERT(vf_clr_n == la, "clear: the callback runs exactly once per element");
            for (k = 0; k < la; k++) VF_ASSERT(vf_pool[ra[k]].poisoned, "clear: every element was handed over");
            VF_ASSERT(a.h.n == &a.h && a.h.p == &a.h && a.size == 0, "clear: the list equals a freshly initialised one");
            vf_build(&a, ra, 3, 0);
            vf_check_list(&a, ra, 3, "refill after clear");
            /* foreach: both directions, every stop position, with and without removal of the visited element */
            for (dir = 0; dir < 2; dir++) {
                for (stop = 0; stop <= la; stop++) {
                    for (vf_visit_erase = 0; vf_visit_erase < 2; vf_visit_erase++) {
                        int res, expect_n = stop < la ? stop + 1 : la;
                        vf_build(&a, ra, la, 0);
                        vf_visit_list = &a; vf_visit_n = 0; vf_visit_stop_at = stop;
                        res = cstl_dlist_foreach(&a, vf_visit, NULL, dir ? CSTL_DLIST_FOREACH_DIR_REV : CSTL_DLIST_FOREACH_DIR_FWD);
                        VF_ASSERT(res == (stop < la ? VF_STOPVAL(stop) : 0), "foreach: returns the first non-zero visit result (0 if none)");
                        VF_ASSERT(vf_visit_n == expect_n, "foreach: stops at the first non-zero result");
                        for (k = 0; k < expect_n; k++) VF_ASSERT(vf_visit_log[k] == (dir ? ra[la - 1 - k] : ra[k]), "foreach: visits in sequence order");
                        if (vf_visit_erase) {
                            VF_ASSERT(cstl_dlist_size(&a) == (size_t)(la - expect_n), "foreach: removal of visited elements is tolerated");
                        }
                    }
                }
            }
            vf_visit_erase = 0;
        }
        VF_REACH(la == VF_MAXLEN, "longest list exercised");
    }
    VF_END();
}
#endif

#if defined(VF_B) && VF_B == 3
/* sort and find: every assignment of keys {0,1,2} to lists of length 0..VF_SORTLEN */
#ifndef VF_SORTLEN
#define VF_SORTLEN 4
#endif
void h_b_sort(void)
{
    int len, code, k, j;
    for (len = 0; len <= VF_SORTLEN; len++) {
        int ncodes = 1;
        for (k = 0; k < len; k++) ncodes *= 3;
        for (code = 0; code < ncodes; code++) {
            struct cstl_dlist l; int ref[VF_POOL], c = code;
            VF_SCEN(len > 1);
            vf_build(&l, ref, len, 0);
            for (k = 0; k < len; k++) { vf_pool[k].key = c % 3; c /= 3; }
            /* find: first match in each direction */
            for (j = 0; j < 3; j++) {
                struct vf_el probe; void * f; int first = -1, last = -1;
                probe.key = j;
                for (k = 0; k < len; k++) if (vf_pool[k].key == j) { if (first < 0) first = k; last = k; }
                f = cstl_dlist_find(&l, &probe, vf_cmp_key, VF_CMP_PRIV, CSTL_DLIST_FOREACH_DIR_FWD);
                VF_ASSERT(f == (first < 0 ? NULL : ELEM(first)), "find: first match front to back");
                f = cstl_dlist_find(&l, &probe, vf_cmp_key, VF_CMP_PRIV, CSTL_DLIST_FOREACH_DIR_REV);
                VF_ASSERT(f == (last < 0 ? NULL : ELEM(last)), "find: first match back to front");
            }
            cstl_dlist_sort(&l, vf_cmp_key, VF_CMP_PRIV);
            /* reference: stable sort of the ids by key */
            {
                int n = 0;
                for (j = 0; j < 3; j++) for (k = 0; k < len; k++) if (vf_pool[k].key == j) ref[n++] = k;
            }
            vf_check_list(&l, ref, len, "sort: ordered, stable permutation of the same elements");
            cstl_dlist_push_back(&l, ELEM(10)); ref[len] = 10;
            vf_check_list(&l, ref, len + 1, "push_back after sort");
        }
        VF_REACH(len == VF_SORTLEN, "longest list sorted");
    }
    VF_END();
}
#endif

#ifdef VF_NATIVE
struct vf_harness { const char * name; void (*fn)(void); };
struct vf_harness vf_harnesses[] = {
#if defined(VF_B) && VF_B == 1
    { "h_b_basic", h_b_basic },
#elif defined(VF_B) && VF_B == 2
    { "h_b_multi", h_b_multi },
#elif defined(VF_B) && VF_B == 3
    { "h_b_sort", h_b_sort },
#endif
    { NULL, NULL }
};
#endif
