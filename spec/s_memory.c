/* Contracts for /repo/src/memory.c and the inline functions of cstl/memory.h (C05, C16, C20).
 *
 * The bookkeeping block (struct cstl_shared_ptr_data) is private to memory.c, so the code is
 * included first and the contracts are attached to redeclarations (CBMC accepts a contract on
 * any declaration of a function).
 *
 * View of one allocation: (hard, soft, live) where hard = number of owning shared pointers,
 * soft = number of shared + weak pointers, live <=> managed memory not yet destroyed.
 * Every contract below states the exact change of that view; the history statement of C05
 * follows by induction over the operation sequence (DESIGN section 5/C05).
 */
#include "vf.h"
#include <stdlib.h>
#include "memory.c"

typedef struct cstl_shared_ptr_data vf_blk_t;

/* ------------------------------------------------------------------ ghost state */
size_t vf_w_hard, vf_w_soft, vf_w_hard2, vf_w_soft2, vf_w_sz;
_Bool vf_w_own, vf_w_own2, vf_w_live, vf_w_has_clr;

size_t vf_clr_calls;                   /* clear-callback invocations                          */
_Bool vf_clr_bad;                      /* a callback got a wrong pointer / dead memory        */
void * vf_clr_expect;                  /* the managed memory the next callback must be given  */
void * vf_clr_priv;

#ifndef VF_NATIVE
void vf_clr(void * p, void * priv)
{
    /* exactly the managed address, still allocated at this moment (clear, then free) */
    if (p != vf_clr_expect || priv != vf_clr_priv || !__CPROVER_r_ok(p, 1)) {
        vf_clr_bad = 1;
    }
    vf_clr_calls++;
}
cstl_xtor_func_t * const vf_anchor_clr = vf_clr;
#endif

/* ------------------------------------------------------------------ predicates */
#define CNT_MAX         ((size_t)1 << 31)
#define GP_OK(gp)       ((gp)->self == (void *)(gp))
#define BLK(sp)         ((vf_blk_t *)(sp)->data.ptr)
#define HARD(b)         (*(size_t *)&(b)->ref.hard)
#define SOFT(b)         (*(size_t *)&(b)->ref.soft)
#define LOCKED(b)       (*(unsigned char *)&(b)->ref.lock != 0)
#define MEM(b)          ((b)->up.gp.ptr)
#define OBLK(sp)        ((vf_blk_t *)OLD((sp)->data.ptr))
/* unique pointer: stamped; a clear function is only ever stored together with memory */
#define UP_WF(up)       (GP_OK(&(up)->gp) && ((up)->clr.func == NULL || (up)->clr.func == vf_clr) && \
                         ((up)->gp.ptr != NULL || (up)->clr.func == NULL))
/* a bookkeeping block: counters in range, lock clear, memory present iff an owner exists */
#define BLK_WF(b)       (1 <= SOFT(b) && HARD(b) <= SOFT(b) && SOFT(b) < CNT_MAX && !LOCKED(b) &&    \
                         UP_WF(&(b)->up) && ((HARD(b) >= 1) == (MEM(b) != NULL)))

/* pre-state families, selected per group:
 *   sp empty                         -DVF_SP_EMPTY
 *   sp on a block (default)          block fresh, managed memory fresh iff live                */
#define SP_FRESH(sp)    FRESH(sp, sizeof(cstl_shared_ptr_t)) && GP_OK(&(sp)->data)
#define ON_BLOCK(sp)    (FRESH((sp)->data.ptr, sizeof(vf_blk_t)) && BLK_WF(BLK(sp)) &&                \
                         (HARD(BLK(sp)) >= 1 ==> FRESH(MEM(BLK(sp)), vf_w_sz)) && vf_w_sz >= 1 && vf_w_sz <= 4096)
#define CLR_GHOST(b)    (vf_clr_calls == 0 && !vf_clr_bad && vf_clr_expect == MEM(b) && vf_clr_priv == (b)->up.clr.priv)

#ifndef VF_STRAY
/* ------------------------------------------------------------------ contracts: unique pointers */

void cstl_unique_ptr_reset(cstl_unique_ptr_t * const up)
REQUIRES(FRESH(up, sizeof(*up)) && UP_WF(up))
REQUIRES(vf_w_own ==> (FRESH(up->gp.ptr, vf_w_sz) && vf_w_sz >= 1 && vf_w_sz <= 4096))
REQUIRES(!vf_w_own ==> up->gp.ptr == NULL)
REQUIRES(vf_clr_calls == 0 && !vf_clr_bad && vf_clr_expect == up->gp.ptr && vf_clr_priv == up->clr.priv)
ASSIGNS(up->gp.ptr, up->gp.self, up->clr.func, up->clr.priv, vf_clr_calls, vf_clr_bad)
FREES(up->gp.ptr)
ENSURES(UP_WF(up) && up->gp.ptr == NULL && up->clr.func == NULL && up->clr.priv == NULL)
/* clear exactly once (if there is one), on live memory, and then the memory is released */
ENSURES(vf_clr_calls == (OLD(up->clr.func) != NULL ? 1 : 0) && !vf_clr_bad)
ENSURES(vf_w_own ==> __CPROVER_was_freed(OLD(up->gp.ptr)))
;

void cstl_unique_ptr_alloc(cstl_unique_ptr_t * const up, const size_t sz,
                           cstl_xtor_func_t * const clr, void * const priv)
REQUIRES(FRESH(up, sizeof(*up)) && UP_WF(up))
REQUIRES(vf_w_own ==> (FRESH(up->gp.ptr, vf_w_sz) && vf_w_sz >= 1 && vf_w_sz <= 4096))
REQUIRES(!vf_w_own ==> up->gp.ptr == NULL)
REQUIRES(clr == NULL || clr == vf_clr)
REQUIRES(vf_clr_calls == 0 && !vf_clr_bad && vf_clr_expect == up->gp.ptr && vf_clr_priv == up->clr.priv)
ASSIGNS(up->gp.ptr, up->gp.self, up->clr.func, up->clr.priv, vf_clr_calls, vf_clr_bad)
FREES(up->gp.ptr)
/* the previous memory is destroyed exactly as by reset */
ENSURES(vf_clr_calls == (OLD(up->clr.func) != NULL ? 1 : 0) && !vf_clr_bad)
ENSURES(vf_w_own ==> __CPROVER_was_freed(OLD(up->gp.ptr)))
/* then either new memory of sz bytes with the given callback, or (sz == 0 / allocation failed) empty */
ENSURES(GP_OK(&up->gp))
ENSURES((up->gp.ptr == NULL && up->clr.func == NULL && up->clr.priv == NULL) ||
        (sz > 0 && FRESH(up->gp.ptr, sz) && up->clr.func == clr && up->clr.priv == priv))
ENSURES(sz == 0 ==> up->gp.ptr == NULL)
;

/* ------------------------------------------------------------------ contracts: shared / weak */

/* an owner lets go: hard-1, soft-1; the memory dies exactly at hard 1 -> 0, the block at soft 1 -> 0 */
void cstl_shared_ptr_reset(cstl_shared_ptr_t * const sp)
REQUIRES(SP_FRESH(sp))
#ifdef VF_SP_EMPTY
REQUIRES(sp->data.ptr == NULL)
ASSIGNS(sp->data.ptr, sp->data.self)
ENSURES(GP_OK(&sp->data) && sp->data.ptr == NULL)
#else
REQUIRES(ON_BLOCK(sp) && HARD(BLK(sp)) >= 1 && CLR_GHOST(BLK(sp)))
REQUIRES(vf_w_hard == HARD(BLK(sp)) && vf_w_soft == SOFT(BLK(sp)) && vf_w_has_clr == (BLK(sp)->up.clr.func != NULL))
ASSIGNS(sp->data.ptr, sp->data.self, vf_clr_calls, vf_clr_bad, __CPROVER_object_whole(sp->data.ptr))
FREES(sp->data.ptr, BLK(sp)->up.gp.ptr)
ENSURES(GP_OK(&sp->data) && sp->data.ptr == NULL)
ENSURES(vf_clr_calls == ((vf_w_hard == 1 && vf_w_has_clr) ? 1 : 0) && !vf_clr_bad)
ENSURES(__CPROVER_was_freed(OLD(BLK(sp)->up.gp.ptr)) == (vf_w_hard == 1))
ENSURES(__CPROVER_was_freed(OLD(sp->data.ptr)) == (vf_w_soft == 1))
ENSURES(vf_w_soft > 1 ==> (HARD(OBLK(sp)) == vf_w_hard - 1 && SOFT(OBLK(sp)) == vf_w_soft - 1 &&
                           !LOCKED(OBLK(sp)) && UP_WF(&OBLK(sp)->up) &&
                           ((vf_w_hard > 1) == (MEM(OBLK(sp)) != NULL))))
#endif
;

/* a weak reference goes away: soft-1, block released exactly at soft 1 -> 0, memory never touched */
void cstl_weak_ptr_reset(cstl_weak_ptr_t * const wp)
REQUIRES(SP_FRESH(wp))
#ifdef VF_SP_EMPTY
REQUIRES(wp->data.ptr == NULL)
ASSIGNS(wp->data.ptr, wp->data.self)
ENSURES(GP_OK(&wp->data) && wp->data.ptr == NULL)
#else
REQUIRES(ON_BLOCK(wp) && CLR_GHOST(BLK(wp)))
REQUIRES(HARD(BLK(wp)) < SOFT(BLK(wp)))
REQUIRES(vf_w_hard == HARD(BLK(wp)) && vf_w_soft == SOFT(BLK(wp)))
ASSIGNS(wp->data.ptr, wp->data.self, __CPROVER_object_whole(wp->data.ptr))
FREES(wp->data.ptr)
ENSURES(GP_OK(&wp->data) && wp->data.ptr == NULL)
ENSURES(vf_clr_calls == 0)
ENSURES(__CPROVER_was_freed(OLD(wp->data.ptr)) == (vf_w_soft == 1))
ENSURES(vf_w_soft > 1 ==> (HARD(OBLK(wp)) == vf_w_hard && SOFT(OBLK(wp)) == vf_w_soft - 1 &&
                           MEM(OBLK(wp)) == OLD(MEM(BLK(wp)))))
#endif
;

/* sharing into an empty pointer: hard+1, soft+1, both see the same memory */
void cstl_shared_ptr_share(const cstl_shared_ptr_t * const e, cstl_shared_ptr_t * const n)
#if defined(VF_SHARE_INTO_EMPTY)
REQUIRES(SP_FRESH(e) && ON_BLOCK(e) && HARD(BLK(e)) >= 1 && SOFT(BLK(e)) < CNT_MAX - 1)
REQUIRES(SP_FRESH(n) && n->data.ptr == NULL)
REQUIRES(vf_w_hard == HARD(BLK(e)) && vf_w_soft == SOFT(BLK(e)) && vf_clr_calls == 0)
ASSIGNS(n->data.ptr, n->data.self, __CPROVER_object_whole(e->data.ptr))
ENSURES(GP_OK(&n->data) && GP_OK(&e->data) && n->data.ptr == e->data.ptr && e->data.ptr == OLD(e->data.ptr))
ENSURES(HARD(BLK(e)) == vf_w_hard + 1 && SOFT(BLK(e)) == vf_w_soft + 1 && MEM(BLK(e)) == OLD(MEM(BLK(e))))
ENSURES(BLK_WF(BLK(e)) && vf_clr_calls == 0)
#elif defined(VF_SHARE_EMPTY_SRC)
/* sharing an empty pointer into an owner: the owner lets go (as reset) and ends up empty */
REQUIRES(SP_FRESH(e) && e->data.ptr == NULL)
REQUIRES(SP_FRESH(n) && ON_BLOCK(n) && HARD(BLK(n)) >= 1 && CLR_GHOST(BLK(n)))
REQUIRES(vf_w_hard == HARD(BLK(n)) && vf_w_soft == SOFT(BLK(n)) && vf_w_has_clr == (BLK(n)->up.clr.func != NULL))
ASSIGNS(n->data.ptr, n->data.self, vf_clr_calls, vf_clr_bad, __CPROVER_object_whole(n->data.ptr))
FREES(n->data.ptr, BLK(n)->up.gp.ptr)
ENSURES(GP_OK(&n->data) && n->data.ptr == NULL && e->data.ptr == NULL)
ENSURES(vf_clr_calls == ((vf_w_hard == 1 && vf_w_has_clr) ? 1 : 0) && !vf_clr_bad)
ENSURES(__CPROVER_was_freed(OLD(BLK(n)->up.gp.ptr)) == (vf_w_hard == 1))
ENSURES(__CPROVER_was_freed(OLD(n->data.ptr)) == (vf_w_soft == 1))
#elif defined(VF_SHARE_OCCUPIED)
/* sharing into a pointer that owns ANOTHER allocation: that allocation is let go exactly as by
 * reset (hard-1/soft-1, destroyed iff last owner, block released iff last reference), then the
 * pointer becomes a co-owner of e's allocation (hard+1/soft+1) */
REQUIRES(SP_FRESH(e) && ON_BLOCK(e) && HARD(BLK(e)) >= 1 && SOFT(BLK(e)) < CNT_MAX - 1)
REQUIRES(SP_FRESH(n) && ON_BLOCK(n) && HARD(BLK(n)) >= 1 && CLR_GHOST(BLK(n)))
REQUIRES(vf_w_hard == HARD(BLK(e)) && vf_w_soft == SOFT(BLK(e)))
REQUIRES(vf_w_hard2 == HARD(BLK(n)) && vf_w_soft2 == SOFT(BLK(n)) && vf_w_has_clr == (BLK(n)->up.clr.func != NULL))
ASSIGNS(n->data.ptr, n->data.self, vf_clr_calls, vf_clr_bad, __CPROVER_object_whole(n->data.ptr), __CPROVER_object_whole(e->data.ptr))
FREES(n->data.ptr, BLK(n)->up.gp.ptr)
ENSURES(GP_OK(&n->data) && GP_OK(&e->data) && n->data.ptr == e->data.ptr && e->data.ptr == OLD(e->data.ptr))
ENSURES(HARD(BLK(e)) == vf_w_hard + 1 && SOFT(BLK(e)) == vf_w_soft + 1 && MEM(BLK(e)) == OLD(MEM(BLK(e))) && BLK_WF(BLK(e)))
ENSURES(vf_clr_calls == ((vf_w_hard2 == 1 && vf_w_has_clr) ? 1 : 0) && !vf_clr_bad)
ENSURES(__CPROVER_was_freed(OLD(BLK(n)->up.gp.ptr)) == (vf_w_hard2 == 1))
ENSURES(__CPROVER_was_freed(OLD(n->data.ptr)) == (vf_w_soft2 == 1))
ENSURES(vf_w_soft2 > 1 ==> (HARD(OBLK(n)) == vf_w_hard2 - 1 && SOFT(OBLK(n)) == vf_w_soft2 - 1 &&
                            ((vf_w_hard2 > 1) == (MEM(OBLK(n)) != NULL))))
ENSURES(!__CPROVER_was_freed(OLD(MEM(BLK(e)))) && !__CPROVER_was_freed(OLD(e->data.ptr)))
#elif defined(VF_SHARE_SAME_BLOCK)
/* both already own the same allocation: re-targeting n is a net no-op on the counters */
REQUIRES(SP_FRESH(e) && ON_BLOCK(e) && HARD(BLK(e)) >= 2)
REQUIRES(SP_FRESH(n) && n->data.ptr == e->data.ptr)
REQUIRES(vf_w_hard == HARD(BLK(e)) && vf_w_soft == SOFT(BLK(e)) && vf_clr_calls == 0)
ASSIGNS(n->data.ptr, n->data.self, __CPROVER_object_whole(e->data.ptr), vf_clr_calls, vf_clr_bad, vf_aborted)
FREES(e->data.ptr, BLK(e)->up.gp.ptr)
ENSURES(GP_OK(&n->data) && n->data.ptr == e->data.ptr && e->data.ptr == OLD(e->data.ptr))
ENSURES(HARD(BLK(e)) == vf_w_hard && SOFT(BLK(e)) == vf_w_soft && MEM(BLK(e)) == OLD(MEM(BLK(e))))
ENSURES(BLK_WF(BLK(e)) && vf_clr_calls == 0)
#endif
;

/* weak-from into an empty weak pointer: soft+1 only */
void cstl_weak_ptr_from(cstl_weak_ptr_t * const wp, const cstl_shared_ptr_t * const sp)
#if defined(VF_WEAK_FROM)
REQUIRES(SP_FRESH(sp) && ON_BLOCK(sp) && HARD(BLK(sp)) >= 1 && SOFT(BLK(sp)) < CNT_MAX - 1)
REQUIRES(SP_FRESH(wp) && wp->data.ptr == NULL)
REQUIRES(vf_w_hard == HARD(BLK(sp)) && vf_w_soft == SOFT(BLK(sp)) && vf_clr_calls == 0)
ASSIGNS(wp->data.ptr, wp->data.self, __CPROVER_object_whole(sp->data.ptr))
ENSURES(GP_OK(&wp->data) && wp->data.ptr == sp->data.ptr && sp->data.ptr == OLD(sp->data.ptr))
ENSURES(HARD(BLK(sp)) == vf_w_hard && SOFT(BLK(sp)) == vf_w_soft + 1 && MEM(BLK(sp)) == OLD(MEM(BLK(sp))))
ENSURES(BLK_WF(BLK(sp)) && vf_clr_calls == 0)
#elif defined(VF_WEAK_FROM_OCCUPIED)
/* weak-from onto a weak pointer that refers to ANOTHER allocation: that allocation loses one weak
 * reference only (soft-1, never hard; its memory is not touched; block released iff last
 * reference), then soft+1 on sp's allocation */
REQUIRES(SP_FRESH(sp) && ON_BLOCK(sp) && HARD(BLK(sp)) >= 1 && SOFT(BLK(sp)) < CNT_MAX - 1)
REQUIRES(SP_FRESH(wp) && ON_BLOCK(wp) && HARD(BLK(wp)) < SOFT(BLK(wp)) && CLR_GHOST(BLK(wp)))
REQUIRES(vf_w_hard == HARD(BLK(sp)) && vf_w_soft == SOFT(BLK(sp)) && vf_w_hard2 == HARD(BLK(wp)) && vf_w_soft2 == SOFT(BLK(wp)))
ASSIGNS(wp->data.ptr, wp->data.self, vf_clr_calls, vf_clr_bad, __CPROVER_object_whole(wp->data.ptr), __CPROVER_object_whole(sp->data.ptr))
FREES(wp->data.ptr, BLK(wp)->up.gp.ptr)
ENSURES(GP_OK(&wp->data) && wp->data.ptr == sp->data.ptr && sp->data.ptr == OLD(sp->data.ptr))
ENSURES(HARD(BLK(sp)) == vf_w_hard && SOFT(BLK(sp)) == vf_w_soft + 1 && MEM(BLK(sp)) == OLD(MEM(BLK(sp))) && BLK_WF(BLK(sp)))
ENSURES(vf_clr_calls == 0 && !vf_clr_bad)
ENSURES(vf_w_hard2 >= 1 ==> !__CPROVER_was_freed(OLD(BLK(wp)->up.gp.ptr)))
ENSURES(__CPROVER_was_freed(OLD(wp->data.ptr)) == (vf_w_soft2 == 1))
ENSURES(vf_w_soft2 > 1 ==> (HARD(OBLK(wp)) == vf_w_hard2 && SOFT(OBLK(wp)) == vf_w_soft2 - 1 && MEM(OBLK(wp)) == OLD(MEM(BLK(wp)))))
#endif
;

/* locking a weak pointer into an empty shared pointer: an owner iff an owner still exists */
void cstl_weak_ptr_lock(const cstl_weak_ptr_t * const wp, cstl_shared_ptr_t * const sp)
#if defined(VF_LOCK)
REQUIRES(SP_FRESH(wp) && ON_BLOCK(wp) && SOFT(BLK(wp)) < CNT_MAX - 1 && HARD(BLK(wp)) < SOFT(BLK(wp)))
REQUIRES(SP_FRESH(sp) && sp->data.ptr == NULL)
REQUIRES(vf_w_hard == HARD(BLK(wp)) && vf_w_soft == SOFT(BLK(wp)) && vf_clr_calls == 0)
ASSIGNS(sp->data.ptr, sp->data.self, __CPROVER_object_whole(wp->data.ptr))
ENSURES(GP_OK(&sp->data) && GP_OK(&wp->data) && wp->data.ptr == OLD(wp->data.ptr))
ENSURES(vf_w_hard >= 1 ==> (sp->data.ptr == wp->data.ptr && HARD(BLK(wp)) == vf_w_hard + 1 && SOFT(BLK(wp)) == vf_w_soft + 1))
ENSURES(vf_w_hard == 0 ==> (sp->data.ptr == NULL && HARD(BLK(wp)) == 0 && SOFT(BLK(wp)) == vf_w_soft))
ENSURES(MEM(BLK(wp)) == OLD(MEM(BLK(wp))) && BLK_WF(BLK(wp)) && vf_clr_calls == 0)
#elif defined(VF_LOCK_OCCUPIED)
/* locking into a pointer that owns ANOTHER allocation: that one is let go as by reset, then the
 * pointer owns wp's allocation iff it still has an owner */
REQUIRES(SP_FRESH(wp) && ON_BLOCK(wp) && SOFT(BLK(wp)) < CNT_MAX - 1 && HARD(BLK(wp)) < SOFT(BLK(wp)))
REQUIRES(SP_FRESH(sp) && ON_BLOCK(sp) && HARD(BLK(sp)) >= 1 && CLR_GHOST(BLK(sp)))
REQUIRES(vf_w_hard == HARD(BLK(wp)) && vf_w_soft == SOFT(BLK(wp)))
REQUIRES(vf_w_hard2 == HARD(BLK(sp)) && vf_w_soft2 == SOFT(BLK(sp)) && vf_w_has_clr == (BLK(sp)->up.clr.func != NULL))
ASSIGNS(sp->data.ptr, sp->data.self, vf_clr_calls, vf_clr_bad, __CPROVER_object_whole(sp->data.ptr), __CPROVER_object_whole(wp->data.ptr))
FREES(sp->data.ptr, BLK(sp)->up.gp.ptr)
ENSURES(GP_OK(&sp->data) && GP_OK(&wp->data) && wp->data.ptr == OLD(wp->data.ptr))
ENSURES(vf_w_hard >= 1 ==> (sp->data.ptr == wp->data.ptr && HARD(BLK(wp)) == vf_w_hard + 1 && SOFT(BLK(wp)) == vf_w_soft + 1))
ENSURES(vf_w_hard == 0 ==> (sp->data.ptr == NULL && HARD(BLK(wp)) == 0 && SOFT(BLK(wp)) == vf_w_soft))
ENSURES(MEM(BLK(wp)) == OLD(MEM(BLK(wp))) && BLK_WF(BLK(wp)))
ENSURES(vf_clr_calls == ((vf_w_hard2 == 1 && vf_w_has_clr) ? 1 : 0) && !vf_clr_bad)
ENSURES(__CPROVER_was_freed(OLD(BLK(sp)->up.gp.ptr)) == (vf_w_hard2 == 1))
ENSURES(__CPROVER_was_freed(OLD(sp->data.ptr)) == (vf_w_soft2 == 1))
ENSURES(vf_w_soft2 > 1 ==> (HARD(OBLK(sp)) == vf_w_hard2 - 1 && SOFT(OBLK(sp)) == vf_w_soft2 - 1))
#elif defined(VF_LOCK_EMPTY_WP)
/* an empty weak pointer locks into nothing; an occupied target lets go first (as reset) */
REQUIRES(SP_FRESH(wp) && wp->data.ptr == NULL)
REQUIRES(SP_FRESH(sp) && ON_BLOCK(sp) && HARD(BLK(sp)) >= 1 && CLR_GHOST(BLK(sp)))
REQUIRES(vf_w_hard == HARD(BLK(sp)) && vf_w_soft == SOFT(BLK(sp)) && vf_w_has_clr == (BLK(sp)->up.clr.func != NULL))
ASSIGNS(sp->data.ptr, sp->data.self, vf_clr_calls, vf_clr_bad, __CPROVER_object_whole(sp->data.ptr))
FREES(sp->data.ptr, BLK(sp)->up.gp.ptr)
ENSURES(GP_OK(&sp->data) && sp->data.ptr == NULL)
ENSURES(vf_clr_calls == ((vf_w_hard == 1 && vf_w_has_clr) ? 1 : 0) && !vf_clr_bad)
ENSURES(__CPROVER_was_freed(OLD(BLK(sp)->up.gp.ptr)) == (vf_w_hard == 1))
ENSURES(__CPROVER_was_freed(OLD(sp->data.ptr)) == (vf_w_soft == 1))
#endif
;

/* unique() is true exactly when no other shared or weak reference exists */
bool cstl_shared_ptr_unique(const cstl_shared_ptr_t * const sp)
REQUIRES(SP_FRESH(sp))
#ifdef VF_SP_EMPTY
REQUIRES(sp->data.ptr == NULL)
ASSIGNS()
ENSURES(RESULT == 1)
#else
REQUIRES(ON_BLOCK(sp) && HARD(BLK(sp)) >= 1)
ASSIGNS()
ENSURES(RESULT == (SOFT(BLK(sp)) == 1))
#endif
;

/* every co-owner's get returns the managed address */
const void * cstl_shared_ptr_get_const(const cstl_shared_ptr_t * const sp)
REQUIRES(SP_FRESH(sp))
#ifdef VF_SP_EMPTY
REQUIRES(sp->data.ptr == NULL)
ASSIGNS()
ENSURES(RESULT == NULL)
#else
REQUIRES(ON_BLOCK(sp) && HARD(BLK(sp)) >= 1)
ASSIGNS()
ENSURES(RESULT == MEM(BLK(sp)) && RESULT != NULL)
#endif
;

/* alloc into an empty pointer: one owner of fresh memory, or empty with nothing leaked */
void cstl_shared_ptr_alloc(cstl_shared_ptr_t * const sp, const size_t sz, cstl_xtor_func_t * const clr)
#if defined(VF_SP_ALLOC)
REQUIRES(SP_FRESH(sp) && sp->data.ptr == NULL && (clr == NULL || clr == vf_clr) && vf_clr_calls == 0)
ASSIGNS(sp->data.ptr, sp->data.self, vf_clr_calls, vf_clr_bad)
ENSURES(GP_OK(&sp->data) && vf_clr_calls == 0)
ENSURES(sp->data.ptr == NULL ||
        (sz > 0 && FRESH(sp->data.ptr, sizeof(vf_blk_t)) && HARD(BLK(sp)) == 1 && SOFT(BLK(sp)) == 1 && !LOCKED(BLK(sp)) &&
         GP_OK(&BLK(sp)->up.gp) && FRESH(MEM(BLK(sp)), sz) && BLK(sp)->up.clr.func == clr && BLK(sp)->up.clr.priv == NULL))
ENSURES(sz == 0 ==> sp->data.ptr == NULL)
#elif defined(VF_SP_ALLOC_OCCUPIED)
/* alloc onto a pointer that owns an allocation: that allocation is let go exactly as by reset --
 * for EVERY requested size, also 0 (seeded change C05-6 returned early for size 0) -- and then the
 * pointer is the sole owner of fresh memory, or empty */
REQUIRES(SP_FRESH(sp) && ON_BLOCK(sp) && HARD(BLK(sp)) >= 1 && CLR_GHOST(BLK(sp)) && (clr == NULL || clr == vf_clr))
REQUIRES(vf_w_hard == HARD(BLK(sp)) && vf_w_soft == SOFT(BLK(sp)) && vf_w_has_clr == (BLK(sp)->up.clr.func != NULL))
ASSIGNS(sp->data.ptr, sp->data.self, vf_clr_calls, vf_clr_bad, __CPROVER_object_whole(sp->data.ptr))
FREES(sp->data.ptr, BLK(sp)->up.gp.ptr)
ENSURES(GP_OK(&sp->data) && sp->data.ptr != OLD(sp->data.ptr))
ENSURES(vf_clr_calls == ((vf_w_hard == 1 && vf_w_has_clr) ? 1 : 0) && !vf_clr_bad)
ENSURES(__CPROVER_was_freed(OLD(BLK(sp)->up.gp.ptr)) == (vf_w_hard == 1))
ENSURES(__CPROVER_was_freed(OLD(sp->data.ptr)) == (vf_w_soft == 1))
ENSURES(vf_w_soft > 1 ==> (HARD(OBLK(sp)) == vf_w_hard - 1 && SOFT(OBLK(sp)) == vf_w_soft - 1))
ENSURES(sp->data.ptr == NULL ||
        (sz > 0 && FRESH(sp->data.ptr, sizeof(vf_blk_t)) && HARD(BLK(sp)) == 1 && SOFT(BLK(sp)) == 1 && !LOCKED(BLK(sp)) &&
         GP_OK(&BLK(sp)->up.gp) && FRESH(MEM(BLK(sp)), sz) && BLK(sp)->up.clr.func == clr && BLK(sp)->up.clr.priv == NULL))
ENSURES(sz == 0 ==> sp->data.ptr == NULL)
#endif
;


/* ------------------------------------------------------------------ swap / release (C05)
 * The two objects exchange what they refer to; the frame is the two objects themselves, so no
 * counter moves, nothing is cleared or released, whatever the pointers are (empty, the same
 * allocation, different allocations). */
#ifdef VF_G_swap
static inline void cstl_shared_ptr_swap(cstl_shared_ptr_t * const sp1, cstl_shared_ptr_t * const sp2)
REQUIRES(FRESH(sp1, sizeof(*sp1)) && GP_OK(&sp1->data) && FRESH(sp2, sizeof(*sp2)) && GP_OK(&sp2->data))
ASSIGNS(sp1->data.ptr, sp1->data.self, sp2->data.ptr, sp2->data.self)
ENSURES(GP_OK(&sp1->data) && GP_OK(&sp2->data) && sp1->data.ptr == OLD(sp2->data.ptr) && sp2->data.ptr == OLD(sp1->data.ptr))
;
static inline void cstl_weak_ptr_swap(cstl_weak_ptr_t * const wp1, cstl_weak_ptr_t * const wp2)
REQUIRES(FRESH(wp1, sizeof(*wp1)) && GP_OK(&wp1->data) && FRESH(wp2, sizeof(*wp2)) && GP_OK(&wp2->data))
ASSIGNS(wp1->data.ptr, wp1->data.self, wp2->data.ptr, wp2->data.self)
ENSURES(GP_OK(&wp1->data) && GP_OK(&wp2->data) && wp1->data.ptr == OLD(wp2->data.ptr) && wp2->data.ptr == OLD(wp1->data.ptr))
;
/* unique pointers exchange memory AND the clear function / private pointer that goes with it */
static inline void cstl_unique_ptr_swap(cstl_unique_ptr_t * const up1, cstl_unique_ptr_t * const up2)
REQUIRES(FRESH(up1, sizeof(*up1)) && GP_OK(&up1->gp) && FRESH(up2, sizeof(*up2)) && GP_OK(&up2->gp))
ASSIGNS(up1->gp.ptr, up1->gp.self, up1->clr, up2->gp.ptr, up2->gp.self, up2->clr)
ENSURES(GP_OK(&up1->gp) && GP_OK(&up2->gp) && up1->gp.ptr == OLD(up2->gp.ptr) && up2->gp.ptr == OLD(up1->gp.ptr))
ENSURES(up1->clr.func == OLD(up2->clr.func) && up1->clr.priv == OLD(up2->clr.priv) &&
        up2->clr.func == OLD(up1->clr.func) && up2->clr.priv == OLD(up1->clr.priv))
;
/* swapping an object with itself changes nothing */
void vf_swap_self(cstl_shared_ptr_t * const sp)
REQUIRES(FRESH(sp, sizeof(*sp)) && GP_OK(&sp->data))
ASSIGNS(sp->data.ptr, sp->data.self)
ENSURES(GP_OK(&sp->data) && sp->data.ptr == OLD(sp->data.ptr))
;
void vf_swap_self(cstl_shared_ptr_t * const sp) { cstl_shared_ptr_swap(sp, sp); }
/* release: the memory and its clear function are handed to the caller, nothing is cleared or
 * freed, the object is left as freshly initialised */
static inline void * cstl_unique_ptr_release(cstl_unique_ptr_t * const up, cstl_xtor_func_t ** const clr, void ** priv)
REQUIRES(FRESH(up, sizeof(*up)) && UP_WF(up))
REQUIRES(vf_w_own ==> (FRESH(up->gp.ptr, vf_w_sz) && vf_w_sz >= 1 && vf_w_sz <= 4096))
REQUIRES(!vf_w_own ==> up->gp.ptr == NULL)
REQUIRES((vf_w_live ? FRESH(clr, sizeof(*clr)) : clr == NULL) && (vf_w_has_clr ? FRESH(priv, sizeof(*priv)) : priv == NULL))
REQUIRES(vf_clr_calls == 0)
ASSIGNS(up->gp.ptr, up->gp.self, up->clr; clr != NULL: *clr; priv != NULL: *priv)
ENSURES(RESULT == OLD(up->gp.ptr) && (clr == NULL || *clr == OLD(up->clr.func)) && (priv == NULL || *priv == OLD(up->clr.priv)))
ENSURES(GP_OK(&up->gp) && up->gp.ptr == NULL && up->clr.func == NULL && up->clr.priv == NULL && vf_clr_calls == 0)
ENSURES(vf_w_own ==> __CPROVER_r_ok(RESULT, 1))
;
#endif

#endif /* !VF_STRAY */

/* ------------------------------------------------------------------ C20: stray (bitwise) copies
 * VF_STRAY selects one (function, argument position).  The object in that position has
 * self != its own address (any pointer value, NULL or not); the call must not return. */
#ifdef VF_STRAY
#define STRAY_GP(gp)    ((gp)->self != (void *)(gp))
#if VF_STRAY == 1   /* gp_get */
static inline const void * cstl_guarded_ptr_get_const(const struct cstl_guarded_ptr * const gp)
REQUIRES(FRESH(gp, sizeof(*gp)) && STRAY_GP(gp))
ASSIGNS(vf_aborted)
ENSURES(0)
;
#elif VF_STRAY == 2   /* gp_copy_src */
static inline void cstl_guarded_ptr_copy(struct cstl_guarded_ptr * const dst, const struct cstl_guarded_ptr * const src)
REQUIRES(FRESH(dst, sizeof(*dst)))
REQUIRES(FRESH(src, sizeof(*src)) && STRAY_GP(src))
ASSIGNS(vf_aborted)
ENSURES(0)
;
#elif VF_STRAY == 3   /* gp_swap_a */
static inline void cstl_guarded_ptr_swap(struct cstl_guarded_ptr * const a, struct cstl_guarded_ptr * const b)
REQUIRES(FRESH(a, sizeof(*a)) && STRAY_GP(a))
REQUIRES(FRESH(b, sizeof(*b)) && GP_OK(b))
ASSIGNS(vf_aborted)
ENSURES(0)
;
#elif VF_STRAY == 4   /* gp_swap_b */
static inline void cstl_guarded_ptr_swap(struct cstl_guarded_ptr * const a, struct cstl_guarded_ptr * const b)
REQUIRES(FRESH(a, sizeof(*a)) && GP_OK(a))
REQUIRES(FRESH(b, sizeof(*b)) && STRAY_GP(b))
ASSIGNS(vf_aborted)
ENSURES(0)
;
#elif VF_STRAY == 5   /* up_get */
static inline const void * cstl_unique_ptr_get_const(const cstl_unique_ptr_t * const up)
REQUIRES(FRESH(up, sizeof(*up)) && STRAY_GP(&up->gp))
ASSIGNS(vf_aborted)
ENSURES(0)
;
#elif VF_STRAY == 6   /* up_release */
static inline void * cstl_unique_ptr_release(cstl_unique_ptr_t * const up, cstl_xtor_func_t ** const clr, void ** priv)
REQUIRES(FRESH(up, sizeof(*up)) && STRAY_GP(&up->gp))
REQUIRES(clr == NULL && priv == NULL)
ASSIGNS(vf_aborted)
ENSURES(0)
;
#elif VF_STRAY == 7   /* up_swap_1 */
static inline void cstl_unique_ptr_swap(cstl_unique_ptr_t * const up1, cstl_unique_ptr_t * const up2)
REQUIRES(FRESH(up1, sizeof(*up1)) && STRAY_GP(&up1->gp))
REQUIRES(FRESH(up2, sizeof(*up2)) && GP_OK(&up2->gp))
ASSIGNS(vf_aborted)
ENSURES(0)
;
#elif VF_STRAY == 8   /* up_swap_2 */
static inline void cstl_unique_ptr_swap(cstl_unique_ptr_t * const up1, cstl_unique_ptr_t * const up2)
REQUIRES(FRESH(up1, sizeof(*up1)) && GP_OK(&up1->gp))
REQUIRES(FRESH(up2, sizeof(*up2)) && STRAY_GP(&up2->gp))
ASSIGNS(vf_aborted)
ENSURES(0)
;
#elif VF_STRAY == 9   /* up_reset */
void cstl_unique_ptr_reset(cstl_unique_ptr_t * const up)
REQUIRES(FRESH(up, sizeof(*up)) && STRAY_GP(&up->gp))
ASSIGNS(vf_aborted)
ENSURES(0)
;
#elif VF_STRAY == 10   /* up_alloc */
void cstl_unique_ptr_alloc(cstl_unique_ptr_t * const up, const size_t sz, cstl_xtor_func_t * const clr, void * const priv)
REQUIRES(FRESH(up, sizeof(*up)) && STRAY_GP(&up->gp))
ASSIGNS(vf_aborted)
ENSURES(0)
;
#elif VF_STRAY == 11   /* sp_get */
const void * cstl_shared_ptr_get_const(const cstl_shared_ptr_t * const sp)
REQUIRES(FRESH(sp, sizeof(*sp)) && STRAY_GP(&sp->data))
ASSIGNS(vf_aborted)
ENSURES(0)
;
#elif VF_STRAY == 12   /* sp_unique */
bool cstl_shared_ptr_unique(const cstl_shared_ptr_t * const sp)
REQUIRES(FRESH(sp, sizeof(*sp)) && STRAY_GP(&sp->data))
ASSIGNS(vf_aborted)
ENSURES(0)
;
#elif VF_STRAY == 13   /* sp_share_e */
void cstl_shared_ptr_share(const cstl_shared_ptr_t * const e, cstl_shared_ptr_t * const n)
REQUIRES(FRESH(e, sizeof(*e)) && STRAY_GP(&e->data))
REQUIRES(FRESH(n, sizeof(*n)) && GP_OK(&n->data) && n->data.ptr == NULL)
ASSIGNS(vf_aborted)
ENSURES(0)
;
#elif VF_STRAY == 14   /* sp_share_n */
void cstl_shared_ptr_share(const cstl_shared_ptr_t * const e, cstl_shared_ptr_t * const n)
REQUIRES(FRESH(e, sizeof(*e)) && GP_OK(&e->data) && e->data.ptr == NULL)
REQUIRES(FRESH(n, sizeof(*n)) && STRAY_GP(&n->data))
ASSIGNS(vf_aborted)
ENSURES(0)
;
#elif VF_STRAY == 15   /* sp_swap_1 */
static inline void cstl_shared_ptr_swap(cstl_shared_ptr_t * const sp1, cstl_shared_ptr_t * const sp2)
REQUIRES(FRESH(sp1, sizeof(*sp1)) && STRAY_GP(&sp1->data))
REQUIRES(FRESH(sp2, sizeof(*sp2)) && GP_OK(&sp2->data))
ASSIGNS(vf_aborted)
ENSURES(0)
;
#elif VF_STRAY == 16   /* sp_swap_2 */
static inline void cstl_shared_ptr_swap(cstl_shared_ptr_t * const sp1, cstl_shared_ptr_t * const sp2)
REQUIRES(FRESH(sp1, sizeof(*sp1)) && GP_OK(&sp1->data))
REQUIRES(FRESH(sp2, sizeof(*sp2)) && STRAY_GP(&sp2->data))
ASSIGNS(vf_aborted)
ENSURES(0)
;
#elif VF_STRAY == 17   /* sp_reset */
void cstl_shared_ptr_reset(cstl_shared_ptr_t * const sp)
REQUIRES(FRESH(sp, sizeof(*sp)) && STRAY_GP(&sp->data))
ASSIGNS(vf_aborted)
ENSURES(0)
;
#elif VF_STRAY == 18   /* sp_alloc */
void cstl_shared_ptr_alloc(cstl_shared_ptr_t * const sp, const size_t sz, cstl_xtor_func_t * const clr)
REQUIRES(FRESH(sp, sizeof(*sp)) && STRAY_GP(&sp->data))
ASSIGNS(vf_aborted)
ENSURES(0)
;
#elif VF_STRAY == 19   /* wp_from_wp */
void cstl_weak_ptr_from(cstl_weak_ptr_t * const wp, const cstl_shared_ptr_t * const sp)
REQUIRES(FRESH(wp, sizeof(*wp)) && STRAY_GP(&wp->data))
REQUIRES(FRESH(sp, sizeof(*sp)) && GP_OK(&sp->data) && sp->data.ptr == NULL)
ASSIGNS(vf_aborted)
ENSURES(0)
;
#elif VF_STRAY == 20   /* wp_from_sp */
void cstl_weak_ptr_from(cstl_weak_ptr_t * const wp, const cstl_shared_ptr_t * const sp)
REQUIRES(FRESH(wp, sizeof(*wp)) && GP_OK(&wp->data) && wp->data.ptr == NULL)
REQUIRES(FRESH(sp, sizeof(*sp)) && STRAY_GP(&sp->data))
ASSIGNS(vf_aborted)
ENSURES(0)
;
#elif VF_STRAY == 21   /* wp_lock_wp */
void cstl_weak_ptr_lock(const cstl_weak_ptr_t * const wp, cstl_shared_ptr_t * const sp)
REQUIRES(FRESH(wp, sizeof(*wp)) && STRAY_GP(&wp->data))
REQUIRES(FRESH(sp, sizeof(*sp)) && GP_OK(&sp->data) && sp->data.ptr == NULL)
ASSIGNS(vf_aborted)
ENSURES(0)
;
#elif VF_STRAY == 22   /* wp_lock_sp */
void cstl_weak_ptr_lock(const cstl_weak_ptr_t * const wp, cstl_shared_ptr_t * const sp)
REQUIRES(FRESH(wp, sizeof(*wp)) && GP_OK(&wp->data) && wp->data.ptr == NULL)
REQUIRES(FRESH(sp, sizeof(*sp)) && STRAY_GP(&sp->data))
ASSIGNS(vf_aborted)
ENSURES(0)
;
#elif VF_STRAY == 23   /* wp_reset */
void cstl_weak_ptr_reset(cstl_weak_ptr_t * const wp)
REQUIRES(FRESH(wp, sizeof(*wp)) && STRAY_GP(&wp->data))
ASSIGNS(vf_aborted)
ENSURES(0)
;
#endif
#endif

/* ------------------------------------------------------------------ harnesses */
#ifndef VF_NATIVE

#ifdef VF_STRAY
void h_stray(void)
{
#if VF_STRAY == 1
    struct cstl_guarded_ptr * gp; cstl_guarded_ptr_get_const(gp);
#elif VF_STRAY == 2
    struct cstl_guarded_ptr * a, * b; cstl_guarded_ptr_copy(a, b);
#elif VF_STRAY == 3
    struct cstl_guarded_ptr * a, * b; cstl_guarded_ptr_swap(a, b);
#elif VF_STRAY == 4
    struct cstl_guarded_ptr * a, * b; cstl_guarded_ptr_swap(a, b);
#elif VF_STRAY == 5
    cstl_unique_ptr_t * up; cstl_unique_ptr_get_const(up);
#elif VF_STRAY == 6
    cstl_unique_ptr_t * up; cstl_unique_ptr_release(up, NULL, NULL);
#elif VF_STRAY == 7
    cstl_unique_ptr_t * a, * b; cstl_unique_ptr_swap(a, b);
#elif VF_STRAY == 8
    cstl_unique_ptr_t * a, * b; cstl_unique_ptr_swap(a, b);
#elif VF_STRAY == 9
    cstl_unique_ptr_t * up; cstl_unique_ptr_reset(up);
#elif VF_STRAY == 10
    cstl_unique_ptr_t * up; cstl_unique_ptr_alloc(up, nondet_size_t(), NULL, NULL);
#elif VF_STRAY == 11
    cstl_shared_ptr_t * sp; cstl_shared_ptr_get_const(sp);
#elif VF_STRAY == 12
    cstl_shared_ptr_t * sp; cstl_shared_ptr_unique(sp);
#elif VF_STRAY == 13
    cstl_shared_ptr_t * a, * b; cstl_shared_ptr_share(a, b);
#elif VF_STRAY == 14
    cstl_shared_ptr_t * a, * b; cstl_shared_ptr_share(a, b);
#elif VF_STRAY == 15
    cstl_shared_ptr_t * a, * b; cstl_shared_ptr_swap(a, b);
#elif VF_STRAY == 16
    cstl_shared_ptr_t * a, * b; cstl_shared_ptr_swap(a, b);
#elif VF_STRAY == 17
    cstl_shared_ptr_t * sp; cstl_shared_ptr_reset(sp);
#elif VF_STRAY == 18
    cstl_shared_ptr_t * sp; cstl_shared_ptr_alloc(sp, nondet_size_t(), NULL);
#elif VF_STRAY == 19
    cstl_shared_ptr_t * a, * b; cstl_weak_ptr_from(a, b);
#elif VF_STRAY == 20
    cstl_shared_ptr_t * a, * b; cstl_weak_ptr_from(a, b);
#elif VF_STRAY == 21
    cstl_shared_ptr_t * a, * b; cstl_weak_ptr_lock(a, b);
#elif VF_STRAY == 22
    cstl_shared_ptr_t * a, * b; cstl_weak_ptr_lock(a, b);
#elif VF_STRAY == 23
    cstl_shared_ptr_t * wp; cstl_weak_ptr_reset(wp);
#endif
    VF_END();
}
#endif

#define M_WIT_IN() do { VF_IN_SIZE(hard); VF_IN_SIZE(soft); VF_IN_SIZE(hard2); VF_IN_SIZE(soft2); VF_IN_SIZE(sz); VF_IN_BOOL(own); VF_IN_BOOL(has_clr); } while (0)

void h_up_reset(void) { cstl_unique_ptr_t * up; M_WIT_IN(); cstl_unique_ptr_reset(up); VF_END(); }
void h_up_alloc(void)
{
    cstl_unique_ptr_t * up; size_t sz = nondet_size_t(); void * priv;
    cstl_xtor_func_t * c = nondet_bool() ? vf_clr : NULL;
    M_WIT_IN();
    __CPROVER_assume(sz <= 4096);
    cstl_unique_ptr_alloc(up, sz, c, priv);
    VF_END();
}
void h_sp_reset(void) { cstl_shared_ptr_t * sp; M_WIT_IN(); cstl_shared_ptr_reset(sp); VF_END(); }
void h_wp_reset(void) { cstl_weak_ptr_t * wp; M_WIT_IN(); cstl_weak_ptr_reset(wp); VF_END(); }
void h_share(void) { cstl_shared_ptr_t * e, * n; M_WIT_IN(); cstl_shared_ptr_share(e, n); VF_END(); }
void h_weak_from(void) { cstl_shared_ptr_t * sp; cstl_weak_ptr_t * wp; M_WIT_IN(); cstl_weak_ptr_from(wp, sp); VF_END(); }
void h_lock(void) { cstl_shared_ptr_t * sp; cstl_weak_ptr_t * wp; M_WIT_IN(); cstl_weak_ptr_lock(wp, sp); VF_END(); }
#ifdef VF_G_swap
void h_sp_swap(void) { cstl_shared_ptr_t * a, * b; cstl_shared_ptr_swap(a, b); VF_END(); }
void h_wp_swap(void) { cstl_weak_ptr_t * a, * b; cstl_weak_ptr_swap(a, b); VF_END(); }
void h_up_swap(void) { cstl_unique_ptr_t * a, * b; cstl_unique_ptr_swap(a, b); VF_END(); }
void h_swap_self(void) { cstl_shared_ptr_t * a; vf_swap_self(a); VF_END(); }
void h_up_release(void) { cstl_unique_ptr_t * up; cstl_xtor_func_t ** c; void ** p; M_WIT_IN(); VF_IN_BOOL(live); cstl_unique_ptr_release(up, c, p); VF_END(); }
#endif
void h_unique(void) { cstl_shared_ptr_t * sp; M_WIT_IN(); cstl_shared_ptr_unique(sp); VF_END(); }
void h_get(void) { cstl_shared_ptr_t * sp; M_WIT_IN(); cstl_shared_ptr_get_const(sp); VF_END(); }
/* closed scenario for the leak audit (C16): every malloc may fail independently */
void h_alloc_reset_leak(void)
{
    cstl_shared_ptr_t a, b, c;
    cstl_weak_ptr_t w;
    size_t sz = nondet_size_t();
    __CPROVER_assume(sz <= 64);
    cstl_shared_ptr_init(&a); cstl_shared_ptr_init(&b); cstl_shared_ptr_init(&c); cstl_weak_ptr_init(&w);
    vf_clr_calls = 0;
    cstl_shared_ptr_alloc(&a, sz, nondet_bool() ? vf_clr : NULL);
    vf_clr_expect = (void *)cstl_shared_ptr_get_const(&a);
    vf_clr_priv = NULL;
    cstl_shared_ptr_share(&a, &b);
    cstl_weak_ptr_from(&w, &b);
    VF_ASSERT(cstl_shared_ptr_get_const(&a) == cstl_shared_ptr_get_const(&b), "co-owners see the same address");
    cstl_shared_ptr_reset(&a);
    cstl_weak_ptr_lock(&w, &c);
    VF_ASSERT(cstl_shared_ptr_get_const(&c) == cstl_shared_ptr_get_const(&b), "lock yields the live allocation");
    cstl_shared_ptr_reset(&b);
    VF_ASSERT(vf_clr_calls == 0, "memory stays alive while an owner (the locked pointer) exists");
    cstl_shared_ptr_reset(&c);
    cstl_weak_ptr_lock(&w, &c);
    VF_ASSERT(cstl_shared_ptr_get_const(&c) == NULL, "lock after the last owner is gone yields nothing");
    cstl_weak_ptr_reset(&w);
    VF_ASSERT(vf_clr_calls <= 1 && !vf_clr_bad, "clear at most once, on live memory");
    VF_END();
}

/* the aliasing cases DFCC cannot set up with two is_fresh parameters: both pointers already
 * refer to the same allocation.  Explicit objects, symbolic counters, loop-free: a complete
 * check of the two operations for every counter state. */
void h_same_block(void)
{
    static vf_blk_t blk;
    static char mem[8];
    cstl_shared_ptr_t e, n, sp;
    cstl_weak_ptr_t w;
    size_t hard = VF_IN_SIZE(hard), soft = VF_IN_SIZE(soft);
    __CPROVER_assume(2 <= hard && hard < soft && soft < CNT_MAX - 2);
    HARD(&blk) = hard; SOFT(&blk) = soft;
    atomic_flag_clear(&blk.ref.lock);
    cstl_unique_ptr_init(&blk.up);
    cstl_guarded_ptr_set(&blk.up.gp, mem);
    cstl_guarded_ptr_set(&e.data, &blk);
    cstl_guarded_ptr_set(&n.data, &blk);
    cstl_guarded_ptr_set(&sp.data, &blk);
    cstl_guarded_ptr_set(&w.data, &blk);
    vf_clr_calls = 0;
    /* share onto a co-owner: re-targeting n is a net no-op */
    cstl_shared_ptr_share(&e, &n);
    VF_ASSERT(GP_OK(&n.data) && n.data.ptr == (void *)&blk && e.data.ptr == (void *)&blk, "share onto a co-owner: both still refer to the allocation");
    VF_ASSERT(HARD(&blk) == hard && SOFT(&blk) == soft && MEM(&blk) == (void *)mem && vf_clr_calls == 0,
              "share onto a co-owner: counters unchanged, nothing destroyed");
    /* lock onto a co-owner */
    cstl_weak_ptr_lock(&w, &sp);
    VF_ASSERT(GP_OK(&sp.data) && sp.data.ptr == (void *)&blk && HARD(&blk) == hard && SOFT(&blk) == soft && !LOCKED(&blk) &&
              MEM(&blk) == (void *)mem && vf_clr_calls == 0, "lock onto a co-owner: counters unchanged, nothing destroyed");
    VF_ASSERT(cstl_shared_ptr_get_const(&e) == (const void *)mem && cstl_shared_ptr_get_const(&n) == (const void *)mem &&
              !cstl_shared_ptr_unique(&e), "co-owners see the same address; unique() is false");
    VF_END();
}

void h_sp_alloc(void)
{
    cstl_shared_ptr_t * sp; size_t sz = nondet_size_t();
    cstl_xtor_func_t * c = nondet_bool() ? vf_clr : NULL;
    M_WIT_IN();
    __CPROVER_assume(sz <= 4096);
    cstl_shared_ptr_alloc(sp, sz, c);
    VF_END();
}


#else /* VF_NATIVE: rebuild (hard, soft) through the API, run the real operation, check the view */
#define NMAX 64
static cstl_shared_ptr_t vf_sp[NMAX];
static cstl_weak_ptr_t vf_wp[NMAX];
static size_t vf_nclr;
static void vf_nclr_cb(void * p, void * priv) { (void)priv; memset(p, 0x5a, 1); vf_nclr++; }
static vf_blk_t * vf_nat_build(void)
{
    size_t i;
    VF_IN_SIZE(hard); VF_IN_SIZE(soft); VF_IN_SIZE(sz); VF_IN_BOOL(has_clr);
    if (vf_w_sz == 0) vf_w_sz = 8;       /* harnesses that do not name a size */
    VF_ASSUME(vf_w_hard <= vf_w_soft && vf_w_soft >= 1 && vf_w_soft < NMAX && vf_w_sz >= 1 && vf_w_sz <= 4096);
    for (i = 0; i < NMAX; i++) { cstl_shared_ptr_init(&vf_sp[i]); cstl_weak_ptr_init(&vf_wp[i]); }
    cstl_shared_ptr_alloc(&vf_sp[0], vf_w_sz, vf_w_has_clr ? vf_nclr_cb : NULL);
    VF_ASSUME(cstl_shared_ptr_get(&vf_sp[0]) != NULL);
    for (i = 1; i < (vf_w_hard ? vf_w_hard : 1); i++) cstl_shared_ptr_share(&vf_sp[0], &vf_sp[i]);
    for (i = 0; i < vf_w_soft - (vf_w_hard ? vf_w_hard : 1) + (vf_w_hard ? 0 : 1); i++) cstl_weak_ptr_from(&vf_wp[i], &vf_sp[0]);
    if (vf_w_hard == 0) cstl_shared_ptr_reset(&vf_sp[0]);   /* weak-only state */
    vf_nclr = 0;
    return (vf_blk_t *)(vf_w_hard ? vf_sp[0].data.ptr : vf_wp[0].data.ptr);
}
void h_sp_reset(void)
{
    vf_blk_t * b = vf_nat_build();
    VF_ASSUME(vf_w_hard >= 1);
    cstl_shared_ptr_reset(&vf_sp[0]);
    VF_NCHECK(vf_sp[0].data.ptr == NULL, "reset leaves the pointer empty");
    VF_NCHECK(vf_nclr == ((vf_w_hard == 1 && vf_w_has_clr) ? 1 : 0), "clear runs exactly when the last owner lets go");
    if (vf_w_soft > 1) VF_NCHECK(HARD(b) == vf_w_hard - 1 && SOFT(b) == vf_w_soft - 1, "counters decrease by one each");
}
void h_lock(void)
{
    vf_blk_t * b = vf_nat_build();
    cstl_shared_ptr_t sp;
    VF_ASSUME(vf_w_hard < vf_w_soft);
    cstl_shared_ptr_init(&sp);
    cstl_weak_ptr_lock(&vf_wp[0], &sp);
    printf("lock with hard=%zu soft=%zu: sp.ptr=%p hard=%zu soft=%zu\n", vf_w_hard, vf_w_soft, sp.data.ptr, (size_t)HARD(b), (size_t)SOFT(b));
    if (vf_w_hard >= 1) VF_NCHECK(sp.data.ptr == (void *)b && HARD(b) == vf_w_hard + 1 && SOFT(b) == vf_w_soft + 1, "lock yields an owner while an owner exists");
    else VF_NCHECK(sp.data.ptr == NULL && HARD(b) == 0 && SOFT(b) == vf_w_soft, "lock yields nothing once the last owner is gone; counters restored");
    VF_NCHECK(cstl_shared_ptr_get(&sp) == (vf_w_hard >= 1 ? b->up.gp.ptr : NULL), "get of the locked pointer");
}
#ifndef VF_SHARE_OCCUPIED
void h_share(void)
{
    vf_blk_t * b = vf_nat_build();
    cstl_shared_ptr_t n;
    VF_ASSUME(vf_w_hard >= 1);
    cstl_shared_ptr_init(&n);
    cstl_shared_ptr_share(&vf_sp[0], &n);
    VF_NCHECK(n.data.ptr == (void *)b && HARD(b) == vf_w_hard + 1 && SOFT(b) == vf_w_soft + 1 && vf_nclr == 0, "share into an empty pointer: +1/+1");
}
#endif
void h_same_block(void)
{
    vf_blk_t * b = vf_nat_build();
    VF_ASSUME(vf_w_hard >= 2 && vf_w_hard < vf_w_soft);
    cstl_shared_ptr_share(&vf_sp[0], &vf_sp[1]);
    VF_NCHECK(HARD(b) == vf_w_hard && SOFT(b) == vf_w_soft && vf_nclr == 0, "share onto a co-owner: counters unchanged");
    cstl_weak_ptr_lock(&vf_wp[0], &vf_sp[1]);
    VF_NCHECK(HARD(b) == vf_w_hard && SOFT(b) == vf_w_soft && vf_nclr == 0, "lock onto a co-owner: counters unchanged");
}
#ifdef VF_STRAY
/* C20 replay: a bitwise copy (with a NULL and with a live pointer) in the chosen argument position
 * must end in abort(); the other argument is a properly initialised empty object */
int vf_try(void (*fn)(void *), void * arg);
static void vf_stray_call(void * x)
{
    void ** g = x; void * s = g[0], * e = g[1];
    (void)s; (void)e;
#if VF_STRAY == 1
    cstl_guarded_ptr_get_const(s);
#elif VF_STRAY == 2
    cstl_guarded_ptr_copy(e, s);
#elif VF_STRAY == 3
    cstl_guarded_ptr_swap(s, e);
#elif VF_STRAY == 4
    cstl_guarded_ptr_swap(e, s);
#elif VF_STRAY == 5
    cstl_unique_ptr_get_const(s);
#elif VF_STRAY == 6
    cstl_unique_ptr_release(s, NULL, NULL);
#elif VF_STRAY == 7
    cstl_unique_ptr_swap(s, e);
#elif VF_STRAY == 8
    cstl_unique_ptr_swap(e, s);
#elif VF_STRAY == 9
    cstl_unique_ptr_reset(s);
#elif VF_STRAY == 10
    cstl_unique_ptr_alloc(s, 8, NULL, NULL);
#elif VF_STRAY == 11
    cstl_shared_ptr_get_const(s);
#elif VF_STRAY == 12
    cstl_shared_ptr_unique(s);
#elif VF_STRAY == 13
    cstl_shared_ptr_share(s, e);
#elif VF_STRAY == 14
    cstl_shared_ptr_share(e, s);
#elif VF_STRAY == 15
    cstl_shared_ptr_swap(s, e);
#elif VF_STRAY == 16
    cstl_shared_ptr_swap(e, s);
#elif VF_STRAY == 17
    cstl_shared_ptr_reset(s);
#elif VF_STRAY == 18
    cstl_shared_ptr_alloc(s, 8, NULL);
#elif VF_STRAY == 19
    cstl_weak_ptr_from(s, e);
#elif VF_STRAY == 20
    cstl_weak_ptr_from(e, s);
#elif VF_STRAY == 21
    cstl_weak_ptr_lock(s, e);
#elif VF_STRAY == 22
    cstl_weak_ptr_lock(e, s);
#elif VF_STRAY == 23
    cstl_weak_ptr_reset(s);
#endif
}
void h_stray(void)
{
    int live;
    for (live = 0; live < 2; live++) {
        union { struct cstl_guarded_ptr gp; cstl_unique_ptr_t up; cstl_shared_ptr_t sp; } orig, copy, other;
        void * g[2]; int sig;
        memset(&orig, 0, sizeof(orig)); memset(&other, 0, sizeof(other));
#if VF_STRAY <= 4
        cstl_guarded_ptr_init(&orig.gp); cstl_guarded_ptr_init(&other.gp);
        if (live) cstl_guarded_ptr_set(&orig.gp, &live);
#elif VF_STRAY <= 10
        cstl_unique_ptr_init(&orig.up); cstl_unique_ptr_init(&other.up);
        if (live) cstl_unique_ptr_alloc(&orig.up, 16, NULL, NULL);
#else
        cstl_shared_ptr_init(&orig.sp); cstl_shared_ptr_init(&other.sp);
        if (live) cstl_shared_ptr_alloc(&orig.sp, 16, NULL);
#endif
        memcpy(&copy, &orig, sizeof(copy));          /* the stray copy: its stamp still names `orig` */
        g[0] = &copy; g[1] = &other;
        sig = vf_try(vf_stray_call, g);
        printf("stray copy (%s pointer): signal %d\n", live ? "live" : "NULL", sig);
        VF_NCHECK(sig == SIGABRT, "a call through a bitwise copy aborts, whether or not the pointer is NULL");
    }
}
struct vf_harness { const char * name; void (*fn)(void); };
struct vf_harness vf_harnesses[] = { { "h_stray", h_stray }, { NULL, NULL } };
#else
/* a second allocation B in state (hard2, soft2), for the "occupied target" variants */
static cstl_shared_ptr_t vf_sp2[NMAX];
static cstl_weak_ptr_t vf_wp2[NMAX];
static size_t vf_nclr2;
static void vf_nclr2_cb(void * p, void * priv) { (void)priv; memset(p, 0x5a, 1); vf_nclr2++; }
static vf_blk_t * vf_nat_build2(void)
{
    size_t i;
    VF_IN_SIZE(hard2); VF_IN_SIZE(soft2);
    VF_ASSUME(vf_w_hard2 <= vf_w_soft2 && vf_w_soft2 >= 1 && vf_w_soft2 < NMAX);
    for (i = 0; i < NMAX; i++) { cstl_shared_ptr_init(&vf_sp2[i]); cstl_weak_ptr_init(&vf_wp2[i]); }
    cstl_shared_ptr_alloc(&vf_sp2[0], 8, vf_w_has_clr ? vf_nclr2_cb : NULL);
    VF_ASSUME(cstl_shared_ptr_get(&vf_sp2[0]) != NULL);
    for (i = 1; i < (vf_w_hard2 ? vf_w_hard2 : 1); i++) cstl_shared_ptr_share(&vf_sp2[0], &vf_sp2[i]);
    for (i = 0; i < vf_w_soft2 - (vf_w_hard2 ? vf_w_hard2 : 1) + (vf_w_hard2 ? 0 : 1); i++) cstl_weak_ptr_from(&vf_wp2[i], &vf_sp2[0]);
    if (vf_w_hard2 == 0) cstl_shared_ptr_reset(&vf_sp2[0]);
    vf_nclr2 = 0;
    return (vf_blk_t *)(vf_w_hard2 ? vf_sp2[0].data.ptr : vf_wp2[0].data.ptr);
}
/* the owner / weak reference that let go of B: counters, destruction exactly at the last owner */
static void vf_nat_b_released(vf_blk_t * b, int was_owner)
{
    VF_NCHECK(vf_nclr2 == ((was_owner && vf_w_hard2 == 1 && vf_w_has_clr) ? 1 : 0), "the other allocation is cleared exactly when its last owner lets go");
    if (vf_w_soft2 > 1) {
        VF_NCHECK(HARD(b) == vf_w_hard2 - (was_owner ? 1 : 0) && SOFT(b) == vf_w_soft2 - 1, "the other allocation loses exactly the reference the target held");
    }
}
#if defined(VF_SHARE_OCCUPIED)
void h_share(void)
{
    vf_blk_t * a = vf_nat_build(), * b;
    VF_ASSUME(vf_w_hard >= 1);
    b = vf_nat_build2();
    VF_ASSUME(vf_w_hard2 >= 1);
    cstl_shared_ptr_share(&vf_sp[0], &vf_sp2[0]);
    VF_NCHECK(vf_sp2[0].data.ptr == (void *)a && HARD(a) == vf_w_hard + 1 && SOFT(a) == vf_w_soft + 1 && vf_nclr == 0, "share onto an owner of another allocation: +1/+1 on the shared one");
    vf_nat_b_released(b, 1);
}
#define VF_HAVE_SHARE
#endif
#if defined(VF_WEAK_FROM) || defined(VF_WEAK_FROM_OCCUPIED)
void h_weak_from(void)
{
    vf_blk_t * a = vf_nat_build();
    VF_ASSUME(vf_w_hard >= 1);
#ifdef VF_WEAK_FROM_OCCUPIED
    {
        vf_blk_t * b = vf_nat_build2();
        VF_ASSUME(vf_w_hard2 < vf_w_soft2);
        cstl_weak_ptr_from(&vf_wp2[0], &vf_sp[0]);
        VF_NCHECK(vf_wp2[0].data.ptr == (void *)a && HARD(a) == vf_w_hard && SOFT(a) == vf_w_soft + 1 && vf_nclr == 0, "weak-from onto a weak reference of another allocation: soft+1 only");
        vf_nat_b_released(b, 0);
        if (vf_w_hard2 >= 1) VF_NCHECK(cstl_shared_ptr_get(&vf_sp2[0]) != NULL && vf_nclr2 == 0, "the other allocation's memory stays with its owners");
    }
#else
    {
        cstl_weak_ptr_t w;
        cstl_weak_ptr_init(&w);
        cstl_weak_ptr_from(&w, &vf_sp[0]);
        VF_NCHECK(w.data.ptr == (void *)a && HARD(a) == vf_w_hard && SOFT(a) == vf_w_soft + 1 && vf_nclr == 0, "weak-from into an empty weak pointer: soft+1 only");
    }
#endif
}
#define VF_HAVE_WEAK_FROM
#endif
#if defined(VF_LOCK_OCCUPIED)
void h_lock_occ(void)
{
    vf_blk_t * a = vf_nat_build(), * b;
    VF_ASSUME(vf_w_hard < vf_w_soft);
    b = vf_nat_build2();
    VF_ASSUME(vf_w_hard2 >= 1);
    cstl_weak_ptr_lock(&vf_wp[0], &vf_sp2[0]);
    if (vf_w_hard >= 1) VF_NCHECK(vf_sp2[0].data.ptr == (void *)a && HARD(a) == vf_w_hard + 1 && SOFT(a) == vf_w_soft + 1, "lock onto an owner of another allocation: an owner while one exists");
    else VF_NCHECK(vf_sp2[0].data.ptr == NULL && HARD(a) == 0 && SOFT(a) == vf_w_soft, "lock yields nothing once the last owner is gone");
    vf_nat_b_released(b, 1);
}
#endif
void h_wp_reset(void)
{
    vf_blk_t * b = vf_nat_build();
    VF_ASSUME(vf_w_hard < vf_w_soft);
    cstl_weak_ptr_reset(&vf_wp[0]);
    VF_NCHECK(vf_wp[0].data.ptr == NULL && vf_nclr == 0, "weak reset: pointer empty, memory untouched");
    if (vf_w_soft > 1) VF_NCHECK(HARD(b) == vf_w_hard && SOFT(b) == vf_w_soft - 1, "weak reset: soft-1 only");
}
void h_unique(void)
{
    vf_nat_build();
    VF_ASSUME(vf_w_hard >= 1);
    VF_NCHECK(cstl_shared_ptr_unique(&vf_sp[0]) == (vf_w_soft == 1), "unique() <=> no other shared or weak reference");
}
void h_get(void)
{
    vf_blk_t * b = vf_nat_build();
    size_t i;
    VF_ASSUME(vf_w_hard >= 1);
    for (i = 0; i < vf_w_hard; i++) VF_NCHECK(cstl_shared_ptr_get_const(&vf_sp[i]) == b->up.gp.ptr && b->up.gp.ptr != NULL, "every co-owner's get returns the same address");
}
void h_up_reset(void)
{
    cstl_unique_ptr_t up;
    VF_IN_BOOL(own); VF_IN_BOOL(has_clr); VF_IN_SIZE(sz);
    cstl_unique_ptr_init(&up);
    if (vf_w_own) { cstl_unique_ptr_alloc(&up, vf_w_sz ? vf_w_sz : 1, vf_w_has_clr ? vf_nclr_cb : NULL, NULL); VF_ASSUME(cstl_unique_ptr_get(&up) != NULL); }
    vf_nclr = 0;
    cstl_unique_ptr_reset(&up);
    VF_NCHECK(cstl_unique_ptr_get(&up) == NULL && vf_nclr == ((vf_w_own && vf_w_has_clr) ? 1 : 0), "unique reset: clear once iff memory with a clear function was held");
}
struct vf_harness { const char * name; void (*fn)(void); };
struct vf_harness vf_harnesses[] = {
    { "h_sp_reset", h_sp_reset },
#ifdef VF_LOCK_OCCUPIED
    { "h_lock", h_lock_occ },
#else
    { "h_lock", h_lock },
#endif
#ifndef VF_HAVE_SHARE
    { "h_share", h_share },
#endif
    { "h_same_block", h_same_block }, { "h_wp_reset", h_wp_reset }, { "h_unique", h_unique }, { "h_get", h_get }, { "h_up_reset", h_up_reset },
#ifdef VF_HAVE_WEAK_FROM
    { "h_weak_from", h_weak_from },
#endif
#ifdef VF_HAVE_SHARE
    { "h_share", h_share },
#endif
    { NULL, NULL } };
#endif
#endif
