/* Bounded checks (B) and step checks (S) for /repo/src/bintree.c and /repo/src/rbtree.c
 * (C01, C02, C15).  Real code executed by CBMC on concrete trees; the abstract view is a
 * membership table of pool elements; the representation invariant is re-checked by an
 * independent walker after every operation.  -DVF_RB selects the red-black tree.
 * The same text compiles natively (-DVF_NATIVE) for replay.
 */
#include "vf.h"
#include <stdlib.h>
#include "bintree.c"
#include "rbtree.c"

struct vf_el { int key; int id; int poisoned; struct cstl_rbtree_node rn; };
#define VF_POOL 10
static struct vf_el vf_pool[VF_POOL];
#define BN(i)     (&vf_pool[i].rn.n)
#define ELEM(i)   ((void *)&vf_pool[i])
#define EL_OF(bn) ((struct vf_el *)((char *)(bn) - offsetof(struct vf_el, rn.n)))

static int vf_cmp_key(const void * a, const void * b, void * p)
{
    VF_ASSERT(p == VF_CMP_PRIV, "the comparison function is handed the private pointer given at init");
    return vf_signmag(((const struct vf_el *)a)->key > ((const struct vf_el *)b)->key, ((const struct vf_el *)a)->key < ((const struct vf_el *)b)->key);
}

#ifdef VF_RB
static struct cstl_rbtree vf_t;
#define T_BT        (&vf_t.t)
#define T_INIT()    cstl_rbtree_init(&vf_t, vf_cmp_key, VF_CMP_PRIV, offsetof(struct vf_el, rn))
#define T_INSERT(e, h) cstl_rbtree_insert(&vf_t, e, h)
#define T_FIND(e, pp)  cstl_rbtree_find(&vf_t, e, pp)
#define T_ERASE(e)     cstl_rbtree_erase(&vf_t, e)
#define T_CLEAR(c)     cstl_rbtree_clear(&vf_t, c, NULL)
#define T_FOREACH(v, p, d) cstl_rbtree_foreach(&vf_t, v, p, d)
#define T_SIZE()       cstl_rbtree_size(&vf_t)
#else
static struct cstl_bintree vf_t;
#define T_BT        (&vf_t)
#define T_INIT()    cstl_bintree_init(&vf_t, vf_cmp_key, VF_CMP_PRIV, offsetof(struct vf_el, rn.n))
#define T_INSERT(e, h) cstl_bintree_insert(&vf_t, e, h)
#define T_FIND(e, pp)  cstl_bintree_find(&vf_t, e, pp)
#define T_ERASE(e)     cstl_bintree_erase(&vf_t, e)
#define T_CLEAR(c)     cstl_bintree_clear(&vf_t, c, NULL)
#define T_FOREACH(v, p, d) cstl_bintree_foreach(&vf_t, v, p, d)
#define T_SIZE()       cstl_bintree_size(&vf_t)
#endif

static int vf_member[VF_POOL];       /* abstract view: which pool elements the tree holds */
static int vf_nmember;

/* --- independent walker: parent links, order, membership, red-black rules ------------- */
static int vf_seen[VF_POOL];
/* returns the black height of the subtree (counting NULL as 1), or -1 if the rules are broken */
static int vf_walk(const struct cstl_bintree_node * n, const struct cstl_bintree_node * parent,
                   int lo, int hi, int depth, int * count, int * maxdepth)
{
    int bl, br;
    const struct vf_el * e;
    if (n == NULL) {
        return 1;
    }
    VF_ASSERT(depth <= VF_POOL, "tree: no cycle / bounded depth");
    if (depth > VF_POOL) {
        return -1;
    }
    e = EL_OF(n);
    VF_ASSERT(n->p == parent, "tree: every child's parent link points back at its parent");
    VF_ASSERT(e >= &vf_pool[0] && e < &vf_pool[VF_POOL] && e == &vf_pool[e->id], "tree: every node is an inserted element");
    VF_ASSERT(!vf_seen[e->id], "tree: every element is linked exactly once");
    vf_seen[e->id] = 1;
    VF_ASSERT(vf_member[e->id], "tree: holds only elements inserted and not yet removed");
    VF_ASSERT(lo <= e->key && e->key <= hi, "tree: in-order traversal is non-decreasing");
    (*count)++;
    if (depth > *maxdepth) {
        *maxdepth = depth;
    }
    bl = vf_walk(n->l, n, lo, e->key, depth + 1, count, maxdepth);
    br = vf_walk(n->r, n, e->key, hi, depth + 1, count, maxdepth);
#ifdef VF_RB
    if (e->rn.c == CSTL_RBTREE_COLOR_R) {
        VF_ASSERT(n->l == NULL || EL_OF(n->l)->rn.c == CSTL_RBTREE_COLOR_B, "rbtree: no red node has a red (left) child");
        VF_ASSERT(n->r == NULL || EL_OF(n->r)->rn.c == CSTL_RBTREE_COLOR_B, "rbtree: no red node has a red (right) child");
    }
    VF_ASSERT(bl == br, "rbtree: every path to a missing child crosses the same number of black nodes");
    return bl + (e->rn.c == CSTL_RBTREE_COLOR_B ? 1 : 0);
#else
    (void)br;
    return bl;
#endif
}

static void vf_check_tree(void)
{
    int count = 0, maxdepth = 0, k;
    for (k = 0; k < VF_POOL; k++) {
        vf_seen[k] = 0;
    }
    vf_walk(T_BT->root, NULL, -1000, 1000, 1, &count, &maxdepth);
    VF_ASSERT(count == vf_nmember, "tree: holds exactly the elements inserted and not yet removed");
    VF_ASSERT(T_SIZE() == (size_t)vf_nmember, "tree: size equals that count");
#ifdef VF_RB
    if (T_BT->root != NULL) {
        size_t mn, mx; int lim = 0, m = vf_nmember + 1;
        VF_ASSERT(EL_OF(T_BT->root)->rn.c == CSTL_RBTREE_COLOR_B, "rbtree: the root is black");
        cstl_rbtree_height(&vf_t, &mn, &mx);
        while (m > 1) { lim += 2; m /= 2; }            /* 2 * floor(log2(n + 1)) */
        VF_ASSERT(mx == (size_t)maxdepth, "rbtree: cstl_rbtree_height reports the longest root-to-leaf path");
        VF_ASSERT(mx <= (size_t)lim || vf_nmember == 0, "rbtree: height never exceeds 2*log2(n+1)");
    }
#endif
}

static struct vf_el vf_stale;
/* find agrees with the view: an element comparing equal iff one is held */
static void vf_check_find(int key)
{
    struct vf_el probe; const void * f; int k, any = 0;
    const void * par;
    probe.key = key;
    f = T_FIND(&probe, NULL);
    /* the parent output is written on EVERY path (documented: "the parent of the found element (or
     * where it would be located)"): it is pre-loaded with a stale value, as a caller reusing the
     * variable would have it (seeded change C01-3 wrote it only when nothing was found) */
    par = &vf_stale;
    VF_ASSERT(T_FIND(&probe, &par) == f, "find: the result does not depend on the parent output being requested");
    VF_ASSERT(par != (const void *)&vf_stale, "find: the parent output is written whether or not an element was found");
    if (f != NULL) {
        const struct cstl_bintree_node * fn = (const struct cstl_bintree_node *)((const char *)f + T_BT->off);
        VF_ASSERT(par == (fn->p == NULL ? NULL : (const void *)((const char *)fn->p - T_BT->off)),
                  "find: the parent output is the parent of the found element");
    } else if (T_BT->root == NULL) {
        VF_ASSERT(par == NULL, "find: the parent output of an empty tree is NULL");
    } else {
        const struct cstl_bintree_node * pn = (const struct cstl_bintree_node *)((const char *)par + T_BT->off);
        VF_ASSERT(par != NULL && (key < ((const struct vf_el *)par)->key ? pn->l == NULL : pn->r == NULL),
                  "find: the parent output is the node under which the probe would be linked (its slot on that side is free)");
    }
    for (k = 0; k < VF_POOL; k++) {
        if (vf_member[k] && vf_pool[k].key == key) {
            any = 1;
        }
    }
    if (!any) {
        VF_ASSERT(f == NULL, "find: NULL when no held element compares equal");
    } else {
        int ok = 0;
        for (k = 0; k < VF_POOL; k++) {
            if (vf_member[k] && vf_pool[k].key == key && f == ELEM(k)) {
                ok = 1;
            }
        }
        VF_ASSERT(ok, "find: returns a held element comparing equal to the probe");
    }
}

static void vf_reset(void)
{
    int k;
    T_INIT();
    for (k = 0; k < VF_POOL; k++) {
        vf_member[k] = 0; vf_pool[k].id = k; vf_pool[k].poisoned = 0;
    }
    vf_nmember = 0;
}

/* insert element id with the given key; hinted inserts take the parent hint from find */
static void vf_insert(int id, int key, int hinted)
{
    void * hint = NULL;
    vf_pool[id].key = key;
    if (hinted) {
        const void * par = NULL;
        (void)T_FIND(ELEM(id), &par);
        if (par != NULL) {
            /* the parent reported by find (whether or not an equal element was found) is a valid
             * hint; hand back the address we know rather than the library-derived pointer */
            int k;
            for (k = 0; k < VF_POOL; k++) {
                if (par == ELEM(k)) { hint = ELEM(k); }
            }
        }
    }
    T_INSERT(ELEM(id), hint);
    vf_member[id] = 1; vf_nmember++;
}

/* erase by key: exactly one held element comparing equal is unlinked and returned */
static void vf_erase(int key)
{
    struct vf_el probe; void * r; int k, any = 0, hit = -1;
    probe.key = key;
    r = T_ERASE(&probe);
    for (k = 0; k < VF_POOL; k++) {
        if (vf_member[k] && vf_pool[k].key == key) { any = 1; if (r == ELEM(k)) { hit = k; } }
    }
    if (!any) {
        VF_ASSERT(r == NULL, "erase: NULL when nothing compares equal");
    } else {
        VF_ASSERT(hit >= 0, "erase: returns a pointer that was inserted, is still held and compares equal");
        if (hit >= 0) { vf_member[hit] = 0; vf_nmember--; }
    }
}

/* ------------------------------------------------------------------ traversal (C01) */
static int vf_ev_id[4 * VF_POOL], vf_ev_ord[4 * VF_POOL], vf_ev_n, vf_ev_stop;
static int vf_tvisit(const void * e, cstl_bintree_visit_order_t ord, void * p)
{
    (void)p;
    vf_ev_id[vf_ev_n] = ((const struct vf_el *)e)->id;
    vf_ev_ord[vf_ev_n] = (int)ord;
    return vf_ev_n++ == vf_ev_stop ? VF_STOPVAL(vf_ev_stop) : 0;
}
static void vf_check_traversal(void)
{
    int dir, k, stop, total;
    for (dir = 0; dir < 2; dir++) {
        int last = dir ? 1000 : -1000, mids = 0, res;
        int pre[VF_POOL], post[VF_POOL], mid[VF_POOL];
        for (k = 0; k < VF_POOL; k++) { pre[k] = post[k] = mid[k] = 0; }
        vf_ev_n = 0; vf_ev_stop = -1;
        res = T_FOREACH(vf_tvisit, NULL, dir ? CSTL_BINTREE_FOREACH_DIR_REV : CSTL_BINTREE_FOREACH_DIR_FWD);
        VF_ASSERT(res == 0, "foreach: returns 0 when no visit asks to stop");
        total = vf_ev_n;
        for (k = 0; k < total; k++) {
            int id = vf_ev_id[k], key = vf_pool[id].key;
            const struct cstl_bintree_node * n = BN(id);
            int leaf = n->l == NULL && n->r == NULL;
            VF_ASSERT(vf_member[id], "foreach: presents only held elements");
            if (vf_ev_ord[k] == CSTL_BINTREE_VISIT_ORDER_MID || vf_ev_ord[k] == CSTL_BINTREE_VISIT_ORDER_LEAF) {
                VF_ASSERT((vf_ev_ord[k] == CSTL_BINTREE_VISIT_ORDER_LEAF) == leaf, "foreach: LEAF for leaves, MID otherwise");
                VF_ASSERT(dir ? key <= last : key >= last, "foreach: elements in non-decreasing (forward) / non-increasing (reverse) order");
                VF_ASSERT(leaf || (pre[id] == 1 && post[id] == 0), "foreach: MID visit comes after the PRE and before the POST visit");
                last = key; mid[id]++; mids++;
            } else if (vf_ev_ord[k] == CSTL_BINTREE_VISIT_ORDER_PRE) {
                VF_ASSERT(!leaf && mid[id] == 0, "foreach: PRE only for non-leaves, before their MID");
                pre[id]++;
            } else {
                VF_ASSERT(!leaf && mid[id] == 1, "foreach: POST only for non-leaves, after their MID");
                post[id]++;
            }
        }
        VF_ASSERT(mids == vf_nmember, "foreach: every held element exactly once as MID or LEAF");
        for (k = 0; k < VF_POOL; k++) {
            if (vf_member[k]) {
                int leaf = BN(k)->l == NULL && BN(k)->r == NULL;
                VF_ASSERT(mid[k] == 1 && pre[k] == (leaf ? 0 : 1) && post[k] == (leaf ? 0 : 1), "foreach: non-leaf elements bracketed by one PRE and one POST visit");
            }
        }
        /* early stop at every visit index */
        for (stop = 0; stop < total; stop++) {
            vf_ev_n = 0; vf_ev_stop = stop;
            res = T_FOREACH(vf_tvisit, NULL, dir ? CSTL_BINTREE_FOREACH_DIR_REV : CSTL_BINTREE_FOREACH_DIR_FWD);
            VF_ASSERT(res == VF_STOPVAL(stop) && vf_ev_n == stop + 1, "foreach: stops at, and returns, the first non-zero visit result");
        }
    }
}

/* ------------------------------------------------------------------ clear (C15) */
static int vf_clr_n;
static void vf_clr(void * e, void * p)
{
    struct vf_el * el = e;
    (void)p;
    VF_ASSERT(el >= &vf_pool[0] && el < &vf_pool[VF_POOL] && vf_member[el->id], "clear: the callback gets contained elements only");
    VF_ASSERT(!el->poisoned, "clear: each element is handed over at most once");
    el->poisoned = 1;
    /* the callback may free / reuse the memory: scribble over the links */
    el->rn.n.p = el->rn.n.l = el->rn.n.r = (struct cstl_bintree_node *)&vf_pool[VF_POOL - 1].poisoned;
    vf_clr_n++;
}
static void vf_check_clear(void)
{
    int k, n = vf_nmember;
    vf_clr_n = 0;
    T_CLEAR(vf_clr);
    VF_ASSERT(vf_clr_n == n, "clear: the callback runs exactly once per contained element");
    for (k = 0; k < VF_POOL; k++) {
        VF_ASSERT(!vf_member[k] || vf_pool[k].poisoned, "clear: every contained element was handed over");
    }
    VF_ASSERT(T_BT->root == NULL && T_SIZE() == 0, "clear: the container is empty, as freshly initialised");
    /* reusable */
    vf_reset();
    vf_insert(0, 1, 0); vf_insert(1, 0, 0); vf_insert(2, 2, 0);
    vf_check_tree();
}

/* ------------------------------------------------------------------ harnesses */
#ifndef VF_KEYS
#define VF_KEYS 3
#endif
#ifndef VF_LEN
#define VF_LEN 4
#endif
#ifndef VF_SECOND
#define VF_SECOND (-1)    /* optionally also the second key (sequences shorter than 2 go with second key 0) */
#endif
#ifndef VF_FIRST
#define VF_FIRST (-1)     /* restrict the first key of the sequence: one group per first key */
#endif

static void vf_build(const int * keys, int len, int hinted)
{
    int k;
    vf_reset();
    for (k = 0; k < len; k++) {
        vf_insert(k, keys[k], hinted && (k % 2));
        vf_check_tree();
    }
}

#if defined(VF_B) && VF_B == 1
/* every insertion sequence of length <= VF_LEN over keys {0..VF_KEYS-1} (all BST shapes reachable
 * that way, duplicates included); then find of every key, and erase of every key from that tree */
void h_b_seq(void)
{
    int len, code, k, e, hinted;
    for (len = 0; len <= VF_LEN; len++) {
        int ncodes = 1;
        for (k = 0; k < len; k++) ncodes *= VF_KEYS;
        for (code = 0; code < ncodes; code++) {
            int keys[VF_LEN + 1], c = code;
            for (k = 0; k < len; k++) { keys[k] = c % VF_KEYS; c /= VF_KEYS; }
            if (VF_FIRST >= 0 && (len == 0 ? VF_FIRST != 0 : keys[0] != VF_FIRST)) continue;
            if (VF_SECOND >= 0 && (len < 2 ? VF_SECOND != 0 : keys[1] != VF_SECOND)) continue;
            hinted = code % 2;
            VF_SCEN(len > 1);
            vf_build(keys, len, hinted);
            for (k = -1; k <= VF_KEYS; k++) vf_check_find(k);
            for (e = 0; e < VF_KEYS; e++) {
                vf_build(keys, len, !hinted);
                vf_erase(e);
                vf_check_tree();
                vf_erase(e);                    /* a second equal element, or nothing */
                vf_check_tree();
                vf_insert(VF_LEN + 1, e, 0);    /* the tree stays usable */
                vf_check_tree();
                vf_check_find(e);
            }
            VF_REACH(len == VF_LEN, "longest sequences of the scope reached");
        }
    }
    VF_END();
}
#endif

#if defined(VF_B) && VF_B == 2
/* larger trees: fixed insertion orders of 8 keys with duplicates, interleaved erases of every kind of
 * node (leaf, one child, two children with the successor as child or deeper, the root) */
static const int vf_orders[4][8] = {
    { 4, 2, 6, 1, 3, 5, 7, 4 }, { 0, 1, 2, 3, 4, 5, 6, 7 }, { 7, 6, 5, 4, 3, 2, 1, 0 }, { 3, 3, 1, 5, 1, 5, 3, 0 } };
void h_b_big(void)
{
    int o, k, e;
#ifndef VF_BIG_OSTEP
#define VF_BIG_OSTEP 1
#define VF_BIG_ESTEP 1
#endif
    for (o = 0; o < 4; o += VF_BIG_OSTEP) {
        for (e = 0; e < 8; e += VF_BIG_ESTEP) {
            VF_SCEN(1);
            vf_reset();
            for (k = 0; k < 8; k++) { vf_insert(k, vf_orders[o][k], k % 2); }
            vf_check_tree();
            /* erase starting from key e, wrapping around, checking after every step */
            for (k = 0; k < 8; k++) {
                vf_erase((e + k) % 8);
                vf_check_tree();
                if (k == 3) { vf_insert(8, e, 0); vf_check_tree(); }
            }
        }
        VF_REACH(o == 3, "last insertion order exercised");
    }
    VF_END();
}
#endif

#if defined(VF_B) && VF_B == 3
/* traversal and clear on every tree built from sequences of length <= VF_LEN over {0..VF_KEYS-1} */
void h_b_walk(void)
{
    int len, code, k;
    for (len = 0; len <= VF_LEN; len++) {
        int ncodes = 1;
        for (k = 0; k < len; k++) ncodes *= VF_KEYS;
        for (code = 0; code < ncodes; code++) {
            int keys[VF_LEN + 1], c = code;
            for (k = 0; k < len; k++) { keys[k] = c % VF_KEYS; c /= VF_KEYS; }
            if (VF_FIRST >= 0 && (len == 0 ? VF_FIRST != 0 : keys[0] != VF_FIRST)) continue;
            if (VF_SECOND >= 0 && (len < 2 ? VF_SECOND != 0 : keys[1] != VF_SECOND)) continue;
            VF_SCEN(len > 1);
            vf_build(keys, len, 0);
            vf_check_traversal();
            vf_check_clear();
            VF_REACH(len == VF_LEN, "longest sequences of the scope reached");
        }
    }
    VF_END();
}
#endif

#ifdef VF_NATIVE
struct vf_harness { const char * name; void (*fn)(void); };
struct vf_harness vf_harnesses[] = {
#if defined(VF_B) && VF_B == 1
    { "h_b_seq", h_b_seq },
#elif defined(VF_B) && VF_B == 2
    { "h_b_big", h_b_big },
#elif defined(VF_B) && VF_B == 3
    { "h_b_walk", h_b_walk },
#endif
    { NULL, NULL }
};
#endif
