/* Contract template for one instantiation of /repo/src/_string.c (included twice by
 * s_string.c, mirroring how string.c instantiates the code).
 *
 *   SN(name)   function name of this instantiation (cstl_string_name / cstl_wstring_name)
 *   ST         struct tag, CH the character type, NUL its terminator, CHSZ sizeof(CH)
 *
 * Reference-string view: size(s) characters data[0..size) followed by NUL.  "The characters
 * equal those of a reference string given the same edits" is stated per edit with the ghost
 * index vf_w_g (arbitrary, so for every character): where does character g of the result come
 * from.
 */

#define S_DATA(s)       ((CH *)(s)->v.elem.base)
#define S_CNT(s)        ((s)->v.count)
#define S_SIZE(s)       ((s)->v.count > 0 ? (s)->v.count - 1 : 0)
#define S_MAXB          ((vf_u128)1 << 36)
#define S_NUM(s)        ((s)->v.elem.size == CHSZ && (s)->v.count <= (s)->v.cap &&                    \
                         (s)->v.elem.xtor.cons == NULL && (s)->v.elem.xtor.dest == NULL)
/* storage facts usable in ensures (no is_fresh) */
#define S_STORE(s)      (((s)->v.elem.base == NULL && (s)->v.cap == 0 && (s)->v.count == 0) ||           \
                         ((s)->v.elem.base != NULL && __CPROVER_POINTER_OFFSET((s)->v.elem.base) == 0 && \
                          (vf_u128)__CPROVER_OBJECT_SIZE((s)->v.elem.base) >= ((vf_u128)(s)->v.cap + 1) * CHSZ && \
                          (s)->v.count >= 1 && S_DATA(s)[(s)->v.count - 1] == NUL))
#define S_WF(s)         (S_NUM(s) && S_STORE(s))
/* a ghost character index: any index of the string, or 0 (always readable: the terminator of a
 * string of size 0 that has storage); facts about it are guarded by `< old size` where needed */
#define S_GHOST(x)      ((x) < S_SIZE(s) || (x) == 0)
#ifdef VF_ASSUMED_POST
#define S_INS_G         vf_w_k
#else
#define S_INS_G         vf_w_g
#endif
/* Post-state storage of a function that may reallocate.  Proved form (the function is the one
 * under --enforce-contract): S_WF, i.e. the old block or a new one, live and large enough.
 * Assumed form (the function is replaced by its contract in a caller's proof, -DVF_ASSUMED_POST):
 * "the same block or a new block" is abstracted to "a new block" that carries the same ghost-index
 * facts -- weaker knowledge about the contents, and sound for callers that hold no other pointer
 * into the old block (callers are required to pass sources that do not alias the string). */
#ifdef VF_ASSUMED_POST
#define S_WF_POST(s)    (S_NUM(s) && (s)->v.count >= 1 && ((vf_u128)(s)->v.cap + 1) * CHSZ <= S_MAXB * 4 &&  \
                         FRESH((s)->v.elem.base, ((s)->v.cap + 1) * CHSZ) && S_DATA(s)[(s)->v.count - 1] == NUL)
#else
#define S_WF_POST(s)    S_WF(s)
#endif
#ifdef VF_S_EMPTY
#define S_PRE(s)        (FRESH(s, sizeof(struct ST)) && S_NUM(s) && (s)->v.elem.base == NULL && (s)->v.cap == 0 && (s)->v.count == 0)
#else
#define S_PRE(s)        (FRESH(s, sizeof(struct ST)) && S_NUM(s) && (s)->v.count >= 1 &&                 \
                         ((vf_u128)(s)->v.cap + 1) * CHSZ <= S_MAXB &&                                    \
                         FRESH((s)->v.elem.base, ((s)->v.cap + 1) * CHSZ) && S_DATA(s)[(s)->v.count - 1] == NUL && \
                         vf_w_size == S_SIZE(s) && vf_w_cap == (s)->v.cap)
#endif

/* substr_prep: position beyond the end aborts; a count that reaches past the end, however
 * large, is truncated to the characters available */
static void SN(substr_prep)(const struct ST * const s, const size_t pos, size_t * const len)
REQUIRES(S_PRE(s) && FRESH(len, sizeof(size_t)) && vf_w_len == *len)
ASSIGNS(*len, vf_aborted)
ENSURES(pos < S_SIZE(s))
ENSURES(*len == (vf_w_len > S_SIZE(s) - pos ? S_SIZE(s) - pos : vf_w_len))
ENSURES((vf_u128)pos + *len <= S_SIZE(s))
;

/* __resize: exactly n characters plus terminator, characters below min(old, n) kept; aborts
 * when the storage for n + 1 characters cannot be had (also when n + 1 is not representable) */
static void SN(__resize)(struct ST * const s, const size_t n)
REQUIRES(S_PRE(s))
#ifndef VF_S_EMPTY
REQUIRES(S_GHOST(vf_w_g))
#endif
ASSIGNS(s->v.elem.base, s->v.cap, s->v.count, vf_aborted, vf_cons_calls, vf_dest_calls, vf_xtor_next, vf_xtor_bad)
#ifndef VF_S_EMPTY
ASSIGNS(__CPROVER_object_whole(s->v.elem.base))
#endif
FREES(s->v.elem.base)
ENSURES(S_WF_POST(s) && S_SIZE(s) == n && s->v.count == n + 1 && S_DATA(s)[n] == NUL)
#ifndef VF_S_EMPTY
ENSURES((vf_w_g < n && vf_w_g < vf_w_size) ==> S_DATA(s)[vf_w_g] == OLD(S_DATA(s)[vf_w_g]))
#endif
;

/* erase: characters [idx, idx+len') removed, len' = min(len, size - idx); the rest keeps its order */
#define S_LENP(len, idx) ((len) > vf_w_size - (idx) ? vf_w_size - (idx) : (len))
void SN(erase)(struct ST * const s, const size_t idx, size_t len)
REQUIRES(S_PRE(s) && vf_w_g < S_SIZE(s) && vf_w_h < S_SIZE(s))
ASSIGNS(s->v.elem.base, s->v.cap, s->v.count, vf_aborted, vf_cons_calls, vf_dest_calls, vf_xtor_next, vf_xtor_bad)
#ifndef VF_S_EMPTY
ASSIGNS(__CPROVER_object_whole(s->v.elem.base))
#endif
FREES(s->v.elem.base)
ENSURES(idx < vf_w_size)
ENSURES(S_WF(s) && S_SIZE(s) == vf_w_size - (len > vf_w_size - idx ? vf_w_size - idx : len))
/* character g of the result: below idx it is old g, from idx on it is old g + len' */
ENSURES((vf_w_g < idx && vf_w_g < S_SIZE(s)) ==> S_DATA(s)[vf_w_g] == OLD(S_DATA(s)[vf_w_g]))
/* ... and old character h behind the erased range moves down by len' */
ENSURES(((vf_u128)vf_w_h >= (vf_u128)idx + S_LENP(len, idx)) ==> S_DATA(s)[vf_w_h - S_LENP(len, idx)] == OLD(S_DATA(s)[vf_w_h]))
;

/* prep_insert: a position beyond the end aborts; otherwise a gap of len characters opens at pos */
static void SN(prep_insert)(struct ST * const s, const size_t pos, const size_t len)
REQUIRES(S_PRE(s))
#ifndef VF_S_EMPTY
REQUIRES(S_GHOST(vf_w_g) && S_GHOST(vf_w_h))
#endif
ASSIGNS(s->v.elem.base, s->v.cap, s->v.count, vf_aborted, vf_cons_calls, vf_dest_calls, vf_xtor_next, vf_xtor_bad)
#ifndef VF_S_EMPTY
ASSIGNS(__CPROVER_object_whole(s->v.elem.base))
#endif
FREES(s->v.elem.base)
#ifdef VF_S_EMPTY
ENSURES(pos == 0)
ENSURES(len == 0 ? (s->v.count == 0 && s->v.elem.base == NULL) : (S_WF_POST(s) && S_SIZE(s) == len))
#else
ENSURES(pos <= vf_w_size)
ENSURES(S_WF_POST(s) && (vf_u128)S_SIZE(s) == (vf_u128)vf_w_size + len)
/* characters before the gap stay */
ENSURES(vf_w_g < pos ==> S_DATA(s)[vf_w_g] == OLD(S_DATA(s)[vf_w_g]))
/* characters from the gap position on move up by len */
ENSURES((vf_w_h >= pos && vf_w_h < vf_w_size && len > 0) ==> S_DATA(s)[vf_w_h + len] == OLD(S_DATA(s)[vf_w_h]))
#endif
;

#ifdef VF_G_insert_str_n
/* insert_str_n: exactly len characters of str open at idx, whatever those characters are
 * (embedded NULs included): the result is old[0,idx) ++ str[0,len) ++ old[idx,size).
 * str does not point into the string itself (documented). */
void SN(insert_str_n)(struct ST * const s, const size_t idx, const CH * const str, const size_t len)
REQUIRES(S_PRE(s))
REQUIRES((vf_u128)len * CHSZ <= S_MAXB && len >= 1 && FRESH(str, len * CHSZ))
#ifdef VF_INS_NEW
/* variant "inserted characters": the ghost index S_INS_G < len is a character of str (in the
 * modular form the indices g, h belong to the replaced prep_insert contract, so k is used) */
REQUIRES(S_INS_G < len)
#ifdef VF_ASSUMED_POST
#ifndef VF_S_EMPTY
REQUIRES(S_GHOST(vf_w_g) && S_GHOST(vf_w_h))
#endif
#endif
#else
#ifndef VF_S_EMPTY
REQUIRES(S_GHOST(vf_w_g) && S_GHOST(vf_w_h))
#endif
#endif
ASSIGNS(s->v.elem.base, s->v.cap, s->v.count, vf_aborted, vf_cons_calls, vf_dest_calls, vf_xtor_next, vf_xtor_bad)
#ifndef VF_S_EMPTY
ASSIGNS(__CPROVER_object_whole(s->v.elem.base))
#endif
FREES(s->v.elem.base)
#ifdef VF_S_EMPTY
ENSURES(idx == 0)
ENSURES(S_WF_POST(s) && S_SIZE(s) == len)
#else
ENSURES(idx <= vf_w_size)
ENSURES(S_WF_POST(s) && (vf_u128)S_SIZE(s) == (vf_u128)vf_w_size + len)
#endif
#ifdef VF_INS_NEW
ENSURES(S_DATA(s)[idx + S_INS_G] == OLD(str[S_INS_G]))
#else
#ifndef VF_S_EMPTY
ENSURES(vf_w_g < idx ==> S_DATA(s)[vf_w_g] == OLD(S_DATA(s)[vf_w_g]))
ENSURES((vf_w_h >= idx && vf_w_h < vf_w_size) ==> S_DATA(s)[vf_w_h + len] == OLD(S_DATA(s)[vf_w_h]))
#endif
#endif
;
#endif

#ifdef VF_G_insert
/* insert (header wrapper): all size(ins) characters of the other string object are inserted,
 * whatever they are -- the length comes from the object, not from a NUL search.
 * insert_str_n is replaced by its contract (proved in string.insert_str_n.*). */
static inline void SN(insert)(struct ST * s, size_t pos, const struct ST * ins)
REQUIRES(S_PRE(s))
REQUIRES(FRESH(ins, sizeof(struct ST)) && S_NUM(ins) && ins->v.count >= 2 && ((vf_u128)ins->v.cap + 1) * CHSZ <= S_MAXB &&
         FRESH(ins->v.elem.base, (ins->v.cap + 1) * CHSZ) && S_DATA(ins)[ins->v.count - 1] == NUL && vf_w_len == S_SIZE(ins))
REQUIRES(S_INS_G < S_SIZE(ins))
#ifndef VF_S_EMPTY
REQUIRES(S_GHOST(vf_w_g) && S_GHOST(vf_w_h))
#endif
ASSIGNS(s->v.elem.base, s->v.cap, s->v.count, vf_aborted, vf_cons_calls, vf_dest_calls, vf_xtor_next, vf_xtor_bad)
#ifndef VF_S_EMPTY
ASSIGNS(__CPROVER_object_whole(s->v.elem.base))
#endif
FREES(s->v.elem.base)
#ifdef VF_S_EMPTY
ENSURES(pos == 0 && S_SIZE(s) == vf_w_len)
#else
ENSURES(pos <= vf_w_size && (vf_u128)S_SIZE(s) == (vf_u128)vf_w_size + vf_w_len)
#endif
ENSURES(S_DATA(s)[pos + S_INS_G] == OLD(S_DATA(ins)[S_INS_G]))
;
#endif

#ifdef VF_G_insert_ch
/* insert_ch: cnt copies of ch open at idx: old[0,idx) ++ ch^cnt ++ old[idx,size).
 * prep_insert is replaced by its contract (proved in string.prep_insert.*); the fill loop
 * carries a loop contract (spec/loops/string.lc). */
void SN(insert_ch)(struct ST * const s, size_t idx, size_t cnt, const CH ch)
REQUIRES(S_PRE(s))
#ifdef VF_S_EMPTY
/* (cnt == 0 on an empty string: prep_insert's no-op path, proved there, and a loop that does not
 * execute; excluded here because the loop contract's frame names the -- then absent -- storage) */
REQUIRES(cnt >= 1)
#endif
#ifndef VF_S_EMPTY
REQUIRES(S_GHOST(vf_w_g) && S_GHOST(vf_w_h))
#endif
ASSIGNS(s->v.elem.base, s->v.cap, s->v.count, vf_aborted, vf_cons_calls, vf_dest_calls, vf_xtor_next, vf_xtor_bad)
#ifndef VF_S_EMPTY
ASSIGNS(__CPROVER_object_whole(s->v.elem.base))
#endif
FREES(s->v.elem.base)
#ifdef VF_S_EMPTY
ENSURES(idx == 0)
ENSURES(S_WF(s) && S_SIZE(s) == cnt)
#else
ENSURES(idx <= vf_w_size)
ENSURES(S_NUM(s))
ENSURES(S_STORE(s))
ENSURES((vf_u128)S_SIZE(s) == (vf_u128)vf_w_size + cnt)
ENSURES(vf_w_g < idx ==> S_DATA(s)[vf_w_g] == OLD(S_DATA(s)[vf_w_g]))
ENSURES((vf_w_h >= idx && vf_w_h < vf_w_size && cnt > 0) ==> S_DATA(s)[vf_w_h + cnt] == OLD(S_DATA(s)[vf_w_h]))
#endif
ENSURES(vf_w_k < cnt ==> S_DATA(s)[idx + vf_w_k] == ch)
;
#endif

#ifdef VF_G_resize
/* resize (public): exactly n characters, kept prefix, every new character is NUL.
 * __resize is replaced by its contract (proved in string.resize0.*); the padding loop carries a
 * loop contract (spec/loops/string.lc). */
void SN(resize)(struct ST * const s, const size_t n)
REQUIRES(S_PRE(s))
#ifndef VF_S_EMPTY
REQUIRES(S_GHOST(vf_w_g) && (vf_w_g < n || vf_w_g == 0))
#endif
ASSIGNS(s->v.elem.base, s->v.cap, s->v.count, vf_aborted, vf_cons_calls, vf_dest_calls, vf_xtor_next, vf_xtor_bad)
#ifndef VF_S_EMPTY
ASSIGNS(__CPROVER_object_whole(s->v.elem.base))
#endif
FREES(s->v.elem.base)
ENSURES(S_WF(s) && S_SIZE(s) == n && s->v.count == n + 1 && S_DATA(s)[n] == NUL)
#ifndef VF_S_EMPTY
ENSURES((vf_w_g < n && vf_w_g < vf_w_size) ==> S_DATA(s)[vf_w_g] == OLD(S_DATA(s)[vf_w_g]))
ENSURES((vf_w_k >= vf_w_size && vf_w_k < n) ==> S_DATA(s)[vf_w_k] == NUL)
#else
ENSURES(vf_w_k < n ==> S_DATA(s)[vf_w_k] == NUL)
#endif
;
#endif

#if defined(VF_G_substr) && !defined(VF_S_EMPTY)
/* substr: sub becomes exactly the characters [idx, idx + min(len, size - idx)) of s, for every
 * len; s is not modified (it is not in the frame).  All callees inlined down to realloc.
 * sub is an empty object (-DVF_SUB_EMPTY) or has storage; sub != s (documented). */
#ifdef VF_SUB_EMPTY
#define SUB_PRE(t)      (FRESH(t, sizeof(struct ST)) && S_NUM(t) && (t)->v.elem.base == NULL && (t)->v.cap == 0 && (t)->v.count == 0)
#else
#define SUB_PRE(t)      (FRESH(t, sizeof(struct ST)) && S_NUM(t) && (t)->v.count >= 1 && ((vf_u128)(t)->v.cap + 1) * CHSZ <= S_MAXB && \
                         FRESH((t)->v.elem.base, ((t)->v.cap + 1) * CHSZ) && S_DATA(t)[(t)->v.count - 1] == NUL)
#endif
void SN(substr)(const struct ST * const s, const size_t idx, size_t len, struct ST * const sub)
REQUIRES(S_PRE(s) && SUB_PRE(sub) && S_GHOST(vf_w_g))
ASSIGNS(sub->v.elem.base, sub->v.cap, sub->v.count, vf_aborted, vf_cons_calls, vf_dest_calls, vf_xtor_next, vf_xtor_bad)
#ifndef VF_SUB_EMPTY
ASSIGNS(__CPROVER_object_whole(sub->v.elem.base))
#endif
FREES(sub->v.elem.base)
ENSURES(idx < vf_w_size)
ENSURES(S_WF(sub) && S_SIZE(sub) == (len > vf_w_size - idx ? vf_w_size - idx : len))
ENSURES((vf_w_g >= idx && vf_w_g - idx < S_SIZE(sub)) ==> S_DATA(sub)[vf_w_g - idx] == OLD(S_DATA(s)[vf_w_g]))
;
#undef SUB_PRE
#endif

#ifdef VF_G_sswap
/* swap: the two string objects exchange storage, size and capacity; the characters stay where they are */
#define S_SWAPPED(x, y) ((x)->v.elem.base == OLD((y)->v.elem.base) && (x)->v.elem.size == OLD((y)->v.elem.size) && \
                         (x)->v.count == OLD((y)->v.count) && (x)->v.cap == OLD((y)->v.cap))
static inline void SN(swap)(struct ST * const s1, struct ST * const s2)
REQUIRES(FRESH(s1, sizeof(*s1)) && FRESH(s2, sizeof(*s2)))
ASSIGNS(*s1, *s2)
ENSURES(S_SWAPPED(s1, s2) && S_SWAPPED(s2, s1))
;
#undef S_SWAPPED
#endif

#ifdef VF_G_reserve
/* reserve: never shrinks, quietly does nothing when the growth cannot be had (allocation failure, or
 * sz + 1 not representable); size, characters and terminator are untouched; on success the string
 * can hold sz characters (storage for sz + 2 elements).  vector.c inlined down to realloc. */
static inline void SN(reserve)(struct ST * const s, const size_t sz)
REQUIRES(S_PRE(s))
#ifndef VF_S_EMPTY
/* the second ghost window of the realloc model follows the terminator */
REQUIRES(S_GHOST(vf_w_g) && vf_w_h == vf_w_size)
#endif
ASSIGNS(s->v.elem.base, s->v.cap)
FREES(s->v.elem.base)
#ifdef VF_S_EMPTY
ENSURES(s->v.count == 0 && S_NUM(s) && ((s->v.elem.base == NULL && s->v.cap == 0) ||
        (s->v.cap == sz + 1 && sz + 1 > 0 && (vf_u128)__CPROVER_OBJECT_SIZE(s->v.elem.base) >= ((vf_u128)s->v.cap + 1) * CHSZ)))
#else
ENSURES(S_WF(s) && S_SIZE(s) == vf_w_size && s->v.count == vf_w_size + 1)
ENSURES(s->v.cap == vf_w_cap || (s->v.cap == sz + 1 && sz + 1 > vf_w_cap))
ENSURES(vf_w_g < vf_w_size ==> S_DATA(s)[vf_w_g] == OLD(S_DATA(s)[vf_w_g]))
#endif
;
/* clear: storage released, the string equals a freshly initialised one */
static inline void SN(clear)(struct ST * const s)
REQUIRES(S_PRE(s))
ASSIGNS(s->v.elem.base, s->v.cap, s->v.count, vf_aborted, vf_cons_calls, vf_dest_calls, vf_xtor_next, vf_xtor_bad)
FREES(s->v.elem.base)
ENSURES(s->v.elem.base == NULL && s->v.cap == 0 && s->v.count == 0 && S_NUM(s))
#ifndef VF_S_EMPTY
ENSURES(__CPROVER_was_freed(OLD(s->v.elem.base)))
#endif
;
#endif

CH * SN(at)(struct ST * const s, const size_t i)
REQUIRES(S_PRE(s))
ASSIGNS(vf_aborted)
#ifdef VF_S_EMPTY
ENSURES(0)
#else
ENSURES(i < S_SIZE(s) && RESULT == S_DATA(s) + i)
#endif
;

const CH * SN(str)(const struct ST * const s)
REQUIRES(S_PRE(s))
ASSIGNS()
#ifdef VF_S_EMPTY
ENSURES(RESULT[0] == NUL)
#else
ENSURES(RESULT == S_DATA(s) && RESULT[S_SIZE(s)] == NUL)
#endif
;

#undef S_LENP
#undef S_DATA
#undef S_CNT
#undef S_SIZE
#undef S_MAXB
#undef S_NUM
#undef S_STORE
#undef S_WF
#undef S_GHOST
#undef S_INS_G
#undef S_WF_POST
#undef S_PRE
