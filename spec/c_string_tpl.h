/* Contract template for one instantiation of /repo/src/_string.c (included twice by
 * s_string.c, mirroring how string.c instantiates the code).
 *
 *   SN(name)   function name of this instantiation (cstl_string_name / cstl_wstring_name)
 *   ST         struct tag, CH the character type, NUL its terminator, CHSZ sizeof(CH)
 *
 * Reference-string view: size(s) characters data[0..size) followed by NUL.  "The characters
 * equal those of a reference string given the same edits" is stated per edit with the ghost
 * index vf_w_g (arbitrary, so for every character): where does character g of the result come
 * from.
 */

#define S_DATA(s)       ((CH *)(s)->v.elem.base)
#define S_CNT(s)        ((s)->v.count)
#define S_SIZE(s)       ((s)->v.count > 0 ? (s)->v.count - 1 : 0)
#define S_MAXB          ((vf_u128)1 << 36)
#define S_NUM(s)        ((s)->v.elem.size == CHSZ && (s)->v.count <= (s)->v.cap &&                    \
                         (s)->v.elem.xtor.cons == NULL && (s)->v.elem.xtor.dest == NULL)
/* storage facts usable in ensures (no is_fresh) */
#define S_STORE(s)      (((s)->v.elem.base == NULL && (s)->v.cap == 0 && (s)->v.count == 0) ||           \
                         ((s)->v.elem.base != NULL && __CPROVER_POINTER_OFFSET((s)->v.elem.base) == 0 && \
                          (vf_u128)__CPROVER_OBJECT_SIZE((s)->v.elem.base) >= ((vf_u128)(s)->v.cap + 1) * CHSZ && \
                          (s)->v.count >= 1 && S_DATA(s)[(s)->v.count - 1] == NUL))
#define S_WF(s)         (S_NUM(s) && S_STORE(s))
#ifdef VF_S_EMPTY
#define S_PRE(s)        (FRESH(s, sizeof(struct ST)) && S_NUM(s) && (s)->v.elem.base == NULL && (s)->v.cap == 0 && (s)->v.count == 0)
#else
#define S_PRE(s)        (FRESH(s, sizeof(struct ST)) && S_NUM(s) && (s)->v.count >= 1 &&                 \
                         ((vf_u128)(s)->v.cap + 1) * CHSZ <= S_MAXB &&                                    \
                         FRESH((s)->v.elem.base, ((s)->v.cap + 1) * CHSZ) && S_DATA(s)[(s)->v.count - 1] == NUL && \
                         vf_w_size == S_SIZE(s) && vf_w_cap == (s)->v.cap)
#endif

/* substr_prep: position beyond the end aborts; a count that reaches past the end, however
 * large, is truncated to the characters available */
static void SN(substr_prep)(const struct ST * const s, const size_t pos, size_t * const len)
REQUIRES(S_PRE(s) && FRESH(len, sizeof(size_t)) && vf_w_len == *len)
ASSIGNS(*len, vf_aborted)
ENSURES(pos < S_SIZE(s))
ENSURES(*len == (vf_w_len > S_SIZE(s) - pos ? S_SIZE(s) - pos : vf_w_len))
ENSURES((vf_u128)pos + *len <= S_SIZE(s))
;

/* __resize: exactly n characters plus terminator, characters below min(old, n) kept; aborts
 * when the storage for n + 1 characters cannot be had (also when n + 1 is not representable) */
static void SN(__resize)(struct ST * const s, const size_t n)
REQUIRES(S_PRE(s))
#ifndef VF_S_EMPTY
REQUIRES(vf_w_g < S_SIZE(s))
#endif
ASSIGNS(s->v.elem.base, s->v.cap, s->v.count, vf_aborted, vf_cons_calls, vf_dest_calls, vf_xtor_next, vf_xtor_bad)
#ifndef VF_S_EMPTY
ASSIGNS(__CPROVER_object_whole(s->v.elem.base))
#endif
FREES(s->v.elem.base)
ENSURES(S_WF(s) && S_SIZE(s) == n && s->v.count == n + 1 && S_DATA(s)[n] == NUL)
#ifndef VF_S_EMPTY
ENSURES(vf_w_g < n ==> S_DATA(s)[vf_w_g] == OLD(S_DATA(s)[vf_w_g]))
ENSURES(n + 1 <= vf_w_cap ==> s->v.elem.base == OLD(s->v.elem.base))
#endif
;

/* erase: characters [idx, idx+len') removed, len' = min(len, size - idx); the rest keeps its order */
#define S_LENP(len, idx) ((len) > vf_w_size - (idx) ? vf_w_size - (idx) : (len))
void SN(erase)(struct ST * const s, const size_t idx, size_t len)
REQUIRES(S_PRE(s) && vf_w_g < S_SIZE(s) && vf_w_h < S_SIZE(s))
ASSIGNS(s->v.elem.base, s->v.cap, s->v.count, vf_aborted, vf_cons_calls, vf_dest_calls, vf_xtor_next, vf_xtor_bad)
#ifndef VF_S_EMPTY
ASSIGNS(__CPROVER_object_whole(s->v.elem.base))
#endif
FREES(s->v.elem.base)
ENSURES(idx < vf_w_size)
ENSURES(S_WF(s) && S_SIZE(s) == vf_w_size - (len > vf_w_size - idx ? vf_w_size - idx : len))
/* character g of the result: below idx it is old g, from idx on it is old g + len' */
ENSURES((vf_w_g < idx && vf_w_g < S_SIZE(s)) ==> S_DATA(s)[vf_w_g] == OLD(S_DATA(s)[vf_w_g]))
/* ... and old character h behind the erased range moves down by len' */
ENSURES(((vf_u128)vf_w_h >= (vf_u128)idx + S_LENP(len, idx)) ==> S_DATA(s)[vf_w_h - S_LENP(len, idx)] == OLD(S_DATA(s)[vf_w_h]))
ENSURES(s->v.elem.base == OLD(s->v.elem.base))
;

/* prep_insert: a position beyond the end aborts; otherwise a gap of len characters opens at pos */
static void SN(prep_insert)(struct ST * const s, const size_t pos, const size_t len)
REQUIRES(S_PRE(s))
#ifndef VF_S_EMPTY
REQUIRES(vf_w_g < S_SIZE(s) && vf_w_h < S_SIZE(s))
#endif
ASSIGNS(s->v.elem.base, s->v.cap, s->v.count, vf_aborted, vf_cons_calls, vf_dest_calls, vf_xtor_next, vf_xtor_bad)
#ifndef VF_S_EMPTY
ASSIGNS(__CPROVER_object_whole(s->v.elem.base))
#endif
FREES(s->v.elem.base)
#ifdef VF_S_EMPTY
ENSURES(pos == 0)
ENSURES(len == 0 ? (s->v.count == 0 && s->v.elem.base == NULL) : (S_WF(s) && S_SIZE(s) == len))
#else
ENSURES(pos <= vf_w_size)
ENSURES(S_WF(s) && (vf_u128)S_SIZE(s) == (vf_u128)vf_w_size + len)
/* characters before the gap stay */
ENSURES(vf_w_g < pos ==> S_DATA(s)[vf_w_g] == OLD(S_DATA(s)[vf_w_g]))
/* characters from the gap position on move up by len */
ENSURES((vf_w_h >= pos && len > 0) ==> S_DATA(s)[vf_w_h + len] == OLD(S_DATA(s)[vf_w_h]))
#endif
;

CH * SN(at)(struct ST * const s, const size_t i)
REQUIRES(S_PRE(s))
ASSIGNS(vf_aborted)
#ifdef VF_S_EMPTY
ENSURES(0)
#else
ENSURES(i < S_SIZE(s) && RESULT == S_DATA(s) + i)
#endif
;

const CH * SN(str)(const struct ST * const s)
REQUIRES(S_PRE(s))
ASSIGNS()
#ifdef VF_S_EMPTY
ENSURES(RESULT[0] == NUL)
#else
ENSURES(RESULT == S_DATA(s) && RESULT[S_SIZE(s)] == NUL)
#endif
;

#undef S_LENP
#undef S_DATA
#undef S_CNT
#undef S_SIZE
#undef S_MAXB
#undef S_NUM
#undef S_STORE
#undef S_WF
#undef S_PRE
