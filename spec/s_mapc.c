/* Per-key contracts for /repo/src/map.c (C08, C16): the map's own logic, proved for every key,
 * every stored pointer and every map size, against contracts of the red-black tree it is built on.
 *
 * "Exactly one entry per key" is stated for an ARBITRARY key value K* (vf_w_kstar, chosen by the
 * harness, never constrained): the ghost pair (vf_present, vf_node) is the abstract map restricted
 * to K*.  The operation under contract works on a key value vf_w_key which is K* itself or some
 * other key; in the second case (vf_present_o, vf_node_o) is the entry of that other key.  So each
 * contract says what happens to the operation's own key AND that the entry of every other key
 * stays exactly as it was.
 *
 * The tree functions the map calls are replaced by contracts that restate C01 in this per-key
 * form (find returns the held element comparing equal, or NULL; insert links exactly the given
 * element; erase unlinks exactly the given element).  These tree contracts are ASSUMED here; the
 * tree code is checked against C01/C02 by the rbstep.* and rbtree.b.* groups (bounded), so the map
 * proofs are unbounded in the map's size but rest on that assumption (listed in the evidence).
 */
#include "vf.h"
#include <stdlib.h>

int vf_w_kstar, vf_w_key, vf_w_nullkey;
_Bool vf_w_ksnull, vf_w_konull, vf_w_kqnull;   /* which key pointers are NULL */
int vf_w_present, vf_w_present_o;     /* 0 / 1 (ints: a havocked _Bool may hold a non-canonical byte) */
_Bool vf_w_iter;

#include "map.c"

#define NODE(e)   ((struct cstl_map_node *)(e))
/* Keys are opaque to the map: only the user's comparison looks at them, so a NULL key pointer is
 * a key like any other (integers carried in the pointer, key 0).  Its value is the ghost
 * vf_null_key.  (Seeded change C08-3 tested `key != NULL` where the node pointer was meant.) */
int vf_null_key;
#define KEYV(k)   ((k) == NULL ? vf_null_key : *(const int *)(k))

/* ghost: abstract map restricted to the two key values, and the map / objects of the harness */
cstl_map_t * vf_map;
void * vf_user_priv;
int vf_present, vf_present_o;         /* 0 / 1 */
struct cstl_map_node * vf_node, * vf_node_o;
size_t vf_cmp_calls;
_Bool vf_cmp_bad;
size_t vf_w_size;

#ifndef VF_NATIVE
const void * nondet_cptr(void);
void * nondet_ptr(void);
/* the user's key comparison: keys are ints; it insists on its own private pointer */
int vf_ucmp(const void * a, const void * b, void * p)
{
    if (p != vf_user_priv) {
        vf_cmp_bad = 1;
    }
    vf_cmp_calls++;
    return (KEYV(a) > KEYV(b)) - (KEYV(a) < KEYV(b));
}
cstl_compare_func_t * const vf_anchor_ucmp = vf_ucmp;
cstl_compare_func_t * const vf_anchor_ncmp = cstl_map_node_cmp;

/* ------------------------------------------------------------------ assumed tree contracts */

/* find: the held element comparing equal to the probe, or NULL (C01).  The probe carries the
 * operation's key.  The reported parent is whatever the descent saw last.  (Specification stub,
 * like cstl_rbtree_insert below: the result is a ghost pointer the caller dereferences.) */
const void * cstl_bintree_find(const struct cstl_bintree * const bt, const void * const e, const void ** const p)
{
    __CPROVER_assert(bt == &vf_map->t.t, "cstl_bintree_find precondition: the map's tree");
    __CPROVER_assert(__CPROVER_r_ok(e, sizeof(struct cstl_map_node)), "cstl_bintree_find precondition: a readable probe");
    __CPROVER_assert(KEYV(NODE(e)->key) == vf_w_key, "cstl_bintree_find precondition: the probe carries the operation's key");
    if (p != NULL) {
        *p = nondet_cptr();
    }
    if (vf_w_key == vf_w_kstar) {
        return vf_present ? vf_node : NULL;
    }
    return vf_present_o ? vf_node_o : NULL;
}

/* insert: links exactly the element given; the caller must not insert a key that is held (that
 * is the map's own obligation: one entry per key).  Written as a specification stub (the
 * executable form of the contract) rather than as a replaced contract: the ghost pointer vf_node
 * must be ASSIGNED the element -- a pointer that is havocked and then assumed equal cannot be
 * dereferenced by CBMC (its value set does not contain the new node), measured. */
struct cstl_rbtree_node nondet_rbnode(void);
void cstl_rbtree_insert(struct cstl_rbtree * const t, void * const e, void * const p)
{
    (void)p;
    __CPROVER_assert(t == &vf_map->t, "cstl_rbtree_insert precondition: the map's tree");
    __CPROVER_assert(__CPROVER_rw_ok(e, sizeof(struct cstl_map_node)), "cstl_rbtree_insert precondition: a live map node");
    __CPROVER_assert(KEYV(NODE(e)->key) == vf_w_key, "cstl_rbtree_insert precondition: the node carries the operation's key");
    __CPROVER_assert(vf_w_key == vf_w_kstar ? !vf_present : !vf_present_o,
                     "cstl_rbtree_insert precondition: the key is not held (one entry per key)");
    t->t.size++;
    t->t.root = nondet_ptr();
    NODE(e)->n = nondet_rbnode();
    if (vf_w_key == vf_w_kstar) {
        vf_present = 1;
        vf_node = e;
    } else {
        vf_present_o = 1;
        vf_node_o = e;
    }
}

/* erase: unlinks exactly the node given, which must be held */
void __cstl_rbtree_erase(struct cstl_rbtree * const t, struct cstl_rbtree_node * const n)
REQUIRES(t == &vf_map->t)
REQUIRES((vf_present && n == &vf_node->n) || (vf_present_o && n == &vf_node_o->n))
ASSIGNS(t->t.size, t->t.root, vf_present, vf_present_o, *n)
ENSURES(t->t.size == OLD(t->t.size) - 1)
ENSURES(n == &vf_node->n ==> (vf_present == 0 && vf_present_o == OLD(vf_present_o)))
ENSURES(n != &vf_node->n ==> (vf_present_o == 0 && vf_present == OLD(vf_present)))
;

/* erase by search (not used by map.c today): the same text as rbtree.c, on top of the find stub and
 * the erase contract, so that a map function that starts to use it is still decided; and an anchor
 * that keeps __cstl_rbtree_erase in the translation unit when map.c stops calling it */
void * cstl_rbtree_erase(struct cstl_rbtree * const t, const void * const _p)
{
    void * const p = (void *)cstl_bintree_find(&t->t, _p, NULL);
    if (p != NULL) {
        __cstl_rbtree_erase(t, &NODE(p)->n);
    }
    return p;
}
void (* const vf_anchor_rbe)(struct cstl_rbtree *, struct cstl_rbtree_node *) = __cstl_rbtree_erase;

/* ------------------------------------------------------------------ proved map contracts */

/* the map is the harness's map, set up as cstl_map_init leaves it; the tracked entries are live
 * nodes holding their key value */
#define M_PRE(map)   ((map) == vf_map && (map)->cmp.f == vf_ucmp && (map)->cmp.p == vf_user_priv &&              \
                      (map)->t.t.cmp.func == cstl_map_node_cmp && (map)->t.t.cmp.priv == (map) &&                \
                      vf_w_present == vf_present && vf_w_present_o == vf_present_o && vf_w_size == (map)->t.t.size && \
                      (vf_present ==> KEYV(vf_node->key) == vf_w_kstar) &&                                        \
                      (vf_present_o ==> (KEYV(vf_node_o->key) == vf_w_key && vf_w_key != vf_w_kstar)) && !vf_cmp_bad)
/* the entry of the operation's key before the call */
#define M_HELD       (vf_w_key == vf_w_kstar ? vf_w_present : vf_w_present_o)
#define M_ENTRY      (vf_w_key == vf_w_kstar ? vf_node : vf_node_o)
/* the entry of the other key is exactly as before */
#define M_OTHER_KEPT(ko, vo, ks, vs)                                                                              \
                     (vf_w_key == vf_w_kstar                                                                      \
                      ? (vf_present_o == vf_w_present_o && (vf_present_o ==> (vf_node_o->key == (ko) && vf_node_o->val == (vo)))) \
                      : (vf_present == vf_w_present && (vf_present ==> (vf_node->key == (ks) && vf_node->val == (vs)))))

const void * vf_ko, * vf_ks;   /* stored pointers of the two tracked entries before the call */
void * vf_vo, * vf_vs;

/* insert: an existing key returns 1, leaves the stored pointers untouched and yields the existing
 * entry; a new key returns 0 with the new entry, or -1 (allocation failed) and nothing changed */
int cstl_map_insert(cstl_map_t * const map, const void * const key, void * const val, cstl_map_iterator_t * const i)
REQUIRES(M_PRE(map) && KEYV(key) == vf_w_key && (vf_w_iter ? __CPROVER_rw_ok(i, sizeof(*i)) : i == NULL))
REQUIRES(vf_present ==> (vf_node->key == vf_ks && vf_node->val == vf_vs))
REQUIRES(vf_present_o ==> (vf_node_o->key == vf_ko && vf_node_o->val == vf_vo))
ASSIGNS(map->t.t.size, map->t.t.root, vf_present, vf_present_o, vf_node, vf_node_o, vf_cmp_calls, vf_cmp_bad; i != NULL: *i)
ENSURES(RESULT == 1 || RESULT == 0 || RESULT == -1)
ENSURES(M_HELD ==> (RESULT == 1 && map->t.t.size == vf_w_size && vf_present == vf_w_present && vf_present_o == vf_w_present_o &&
                    M_ENTRY->key == (vf_w_key == vf_w_kstar ? vf_ks : vf_ko) && M_ENTRY->val == (vf_w_key == vf_w_kstar ? vf_vs : vf_vo)))
ENSURES((M_HELD && i != NULL) ==> (i->key == M_ENTRY->key && i->val == M_ENTRY->val && i->_ == M_ENTRY))
ENSURES(!M_HELD ==> (RESULT == 0 || RESULT == -1))
ENSURES((!M_HELD && RESULT == 0) ==> map->t.t.size == vf_w_size + 1)
ENSURES((!M_HELD && RESULT == 0) ==> (vf_w_key == vf_w_kstar ? vf_present : vf_present_o))
ENSURES((!M_HELD && RESULT == 0) ==> (M_ENTRY->key == key && M_ENTRY->val == val))
ENSURES((!M_HELD && RESULT == 0 && i != NULL) ==> (i->key == key && i->val == val && i->_ == M_ENTRY))
ENSURES((!M_HELD && RESULT == -1) ==> (map->t.t.size == vf_w_size && vf_present == vf_w_present && vf_present_o == vf_w_present_o))
ENSURES((!M_HELD && RESULT == -1 && i != NULL) ==> (i->key == NULL && i->val == NULL && i->_ == NULL))
ENSURES(M_OTHER_KEPT(vf_ko, vf_vo, vf_ks, vf_vs))
ENSURES(!vf_cmp_bad)
;

/* find: the stored pointers, or the end iterator; nothing changes */
void cstl_map_find(const cstl_map_t * const map, const void * const key, cstl_map_iterator_t * const i)
REQUIRES(M_PRE(map) && KEYV(key) == vf_w_key && __CPROVER_rw_ok(i, sizeof(*i)))
ASSIGNS(*i, vf_cmp_calls, vf_cmp_bad)
ENSURES(M_HELD ==> (i->key == M_ENTRY->key && i->val == M_ENTRY->val && i->_ == M_ENTRY))
ENSURES(!M_HELD ==> (i->key == NULL && i->val == NULL && i->_ == NULL))
ENSURES(!vf_cmp_bad)
;

/* erase by key: 0 and the stored pointers of the removed entry (node released), or -1 and the
 * end iterator; the entry of every other key stays */
int cstl_map_erase(cstl_map_t * const map, const void * const key, cstl_map_iterator_t * const _i)
REQUIRES(M_PRE(map) && KEYV(key) == vf_w_key && (vf_w_iter ? __CPROVER_rw_ok(_i, sizeof(*_i)) : _i == NULL))
REQUIRES(vf_present ==> (vf_node->key == vf_ks && vf_node->val == vf_vs))
REQUIRES(vf_present_o ==> (vf_node_o->key == vf_ko && vf_node_o->val == vf_vo))
ASSIGNS(map->t.t.size, map->t.t.root, vf_present, vf_present_o, vf_cmp_calls, vf_cmp_bad; _i != NULL: *_i;
        vf_present: __CPROVER_object_whole(vf_node); vf_present_o: __CPROVER_object_whole(vf_node_o))
FREES(vf_node, vf_node_o)
ENSURES(RESULT == (M_HELD ? 0 : -1))
ENSURES(M_HELD ==> (map->t.t.size == vf_w_size - 1 && !(vf_w_key == vf_w_kstar ? vf_present : vf_present_o) &&
                    __CPROVER_was_freed(vf_w_key == vf_w_kstar ? vf_node : vf_node_o)))
ENSURES((M_HELD && _i != NULL) ==> (_i->key == (vf_w_key == vf_w_kstar ? vf_ks : vf_ko) && _i->val == (vf_w_key == vf_w_kstar ? vf_vs : vf_vo) && _i->_ == NULL))
ENSURES(!M_HELD ==> (map->t.t.size == vf_w_size && vf_present == vf_w_present && vf_present_o == vf_w_present_o))
ENSURES((!M_HELD && _i != NULL) ==> (_i->key == NULL && _i->val == NULL && _i->_ == NULL))
ENSURES(M_OTHER_KEPT(vf_ko, vf_vo, vf_ks, vf_vs))
ENSURES(vf_w_key == vf_w_kstar ? (!vf_w_present_o || !__CPROVER_was_freed(vf_node_o)) : (!vf_w_present || !__CPROVER_was_freed(vf_node)))
;

/* erase by iterator: removes exactly the entry the iterator refers to */
/* (the entry is identified by the iterator: the key storage of the entry may already have been
 * scrubbed by its owner, so no comparison may be needed -- M_PRE_IT says nothing about key values;
 * seeded change C08-5 re-searches the tree by key) */
#define M_PRE_IT(map) ((map) == vf_map && (map)->cmp.f == vf_ucmp && (map)->cmp.p == vf_user_priv &&             \
                      (map)->t.t.cmp.func == cstl_map_node_cmp && (map)->t.t.cmp.priv == (map) &&                \
                      vf_w_present == vf_present && vf_w_present_o == vf_present_o && vf_w_size == (map)->t.t.size && !vf_cmp_bad)
void cstl_map_erase_iterator(cstl_map_t * const map, cstl_map_iterator_t * const i)
REQUIRES(M_PRE_IT(map) && __CPROVER_rw_ok(i, sizeof(*i)) && M_HELD && i->_ == M_ENTRY)
ASSIGNS(map->t.t.size, map->t.t.root, vf_present, vf_present_o;
        vf_present: __CPROVER_object_whole(vf_node); vf_present_o: __CPROVER_object_whole(vf_node_o))
FREES(vf_node, vf_node_o)
ENSURES(map->t.t.size == vf_w_size - 1 && !(vf_w_key == vf_w_kstar ? vf_present : vf_present_o))
ENSURES(__CPROVER_was_freed(vf_w_key == vf_w_kstar ? vf_node : vf_node_o))
ENSURES(vf_w_key == vf_w_kstar ? (vf_present_o == vf_w_present_o && (!vf_w_present_o || !__CPROVER_was_freed(vf_node_o)))
                               : (vf_present == vf_w_present && (!vf_w_present || !__CPROVER_was_freed(vf_node))))
;

/* the tree's element comparison hands the two KEYS and the USER's private pointer to the user's
 * function (not the tree's private pointer, which is the map) */
static int cstl_map_node_cmp(const void * const _a, const void * const _b, void * const p)
REQUIRES(p == vf_map && vf_map->cmp.f == vf_ucmp && vf_map->cmp.p == vf_user_priv && !vf_cmp_bad)
REQUIRES(__CPROVER_r_ok(_a, sizeof(struct cstl_map_node)) && __CPROVER_r_ok(_b, sizeof(struct cstl_map_node)))
REQUIRES((NODE(_a)->key == NULL || __CPROVER_r_ok(NODE(_a)->key, sizeof(int))) && (NODE(_b)->key == NULL || __CPROVER_r_ok(NODE(_b)->key, sizeof(int))))
ASSIGNS(vf_cmp_calls, vf_cmp_bad)
ENSURES(!vf_cmp_bad && vf_cmp_calls == OLD(vf_cmp_calls) + 1)
ENSURES(RESULT == (KEYV(NODE(_a)->key) > KEYV(NODE(_b)->key)) - (KEYV(NODE(_a)->key) < KEYV(NODE(_b)->key)))
;

/* init: empty tree ordered by cstl_map_node_cmp with the map as its private pointer, node offset
 * of the embedded tree node, user comparison and private pointer stored */
void cstl_map_init(cstl_map_t * const map, cstl_compare_func_t * const cmp, void * const priv)
REQUIRES(__CPROVER_rw_ok(map, sizeof(*map)))
ASSIGNS(*map)
ENSURES(map->cmp.f == cmp && map->cmp.p == priv && map->t.t.root == NULL && map->t.t.size == 0)
ENSURES(map->t.t.cmp.func == cstl_map_node_cmp && map->t.t.cmp.priv == map)
ENSURES(map->t.off == offsetof(struct cstl_map_node, n) &&
        map->t.t.off == offsetof(struct cstl_map_node, n) + offsetof(struct cstl_rbtree_node, n))
;


/* ---- clear: every entry's key and value go to the caller's callback exactly once (iterator with
 *      the stored pointers and no node handle), and every node the map allocated is released, also
 *      when no callback is given.  The tree's clear is a specification stub that hands each held
 *      element (here: the two tracked entries; an arbitrary further population is not modelled) to
 *      the element callback exactly once and empties the tree (C15 for the tree: bounded). -------- */
size_t vf_uclr_calls; _Bool vf_uclr_bad; int vf_uclr_seen_s, vf_uclr_seen_o;
void vf_uclr(void * it, void * p)
{
    cstl_map_iterator_t * const i = it;
    vf_uclr_calls++;
    if (p != vf_user_priv || i->_ != NULL) {
        vf_uclr_bad = 1;
    }
    if (i->key == vf_ks && i->val == vf_vs && vf_uclr_seen_s == 0 && vf_w_present) { vf_uclr_seen_s = 1; }
    else if (i->key == vf_ko && i->val == vf_vo && vf_uclr_seen_o == 0 && vf_w_present_o) { vf_uclr_seen_o = 1; }
    else { vf_uclr_bad = 1; }
}
cstl_xtor_func_t * const vf_anchor_uclr = vf_uclr;
cstl_xtor_func_t * const vf_anchor_nclr = __cstl_map_node_clear;
void cstl_bintree_clear(struct cstl_bintree * const bt, cstl_xtor_func_t * const clr, void * const priv)
{
    __CPROVER_assert(bt == &vf_map->t.t, "cstl_bintree_clear precondition: the map's tree");
    __CPROVER_assert(clr == __cstl_map_node_clear, "cstl_bintree_clear precondition: the map's own element callback (a NULL callback would leak every node)");
    if (vf_present) { clr(vf_node, priv); vf_present = 0; }
    if (vf_present_o) { clr(vf_node_o, priv); vf_present_o = 0; }
    bt->root = NULL;
    bt->size = 0;
}
void cstl_map_clear(cstl_map_t * const map, cstl_xtor_func_t * const clr, void * const priv)
REQUIRES(M_PRE(map) && (clr == NULL || clr == vf_uclr) && priv == vf_user_priv)
REQUIRES(vf_present ==> (vf_node->key == vf_ks && vf_node->val == vf_vs))
REQUIRES(vf_present_o ==> (vf_node_o->key == vf_ko && vf_node_o->val == vf_vo))
REQUIRES(vf_uclr_calls == 0 && !vf_uclr_bad && vf_uclr_seen_s == 0 && vf_uclr_seen_o == 0)
ASSIGNS(map->t.t.size, map->t.t.root, vf_present, vf_present_o, vf_uclr_calls, vf_uclr_bad, vf_uclr_seen_s, vf_uclr_seen_o;
        vf_present: __CPROVER_object_whole(vf_node); vf_present_o: __CPROVER_object_whole(vf_node_o))
FREES(vf_node, vf_node_o)
ENSURES(map->t.t.size == 0 && map->t.t.root == NULL && !vf_present && !vf_present_o)
ENSURES(!vf_uclr_bad && vf_uclr_calls == (clr != NULL ? (size_t)vf_w_present + (size_t)vf_w_present_o : 0))
ENSURES(clr != NULL ==> (vf_uclr_seen_s == vf_w_present && vf_uclr_seen_o == vf_w_present_o))
ENSURES(vf_w_present ==> __CPROVER_was_freed(vf_node))
ENSURES(vf_w_present_o ==> __CPROVER_was_freed(vf_node_o))
;

/* ------------------------------------------------------------------ harnesses */
static cstl_map_t vf_M;
static int vf_KS, vf_KO, vf_KQ, vf_VS, vf_VO, vf_VQ, vf_P;
static cstl_map_iterator_t vf_I;
static const void * vf_kq;     /* the key pointer the caller passes: a key object or NULL */

static void vf_setup(void)
{
    vf_map = &vf_M;
    vf_user_priv = &vf_P;
    vf_M.cmp.f = vf_ucmp;
    vf_M.cmp.p = vf_user_priv;
    vf_M.t.t.cmp.func = cstl_map_node_cmp;
    vf_M.t.t.cmp.priv = &vf_M;
    vf_M.t.off = offsetof(struct cstl_map_node, n);
    vf_M.t.t.off = offsetof(struct cstl_map_node, n) + offsetof(struct cstl_rbtree_node, n);
    vf_M.t.t.size = nondet_size_t();
    vf_M.t.t.root = nondet_ptr();
    VF_IN_INT(kstar);
    VF_IN_INT(key);
    vf_w_present = nondet_bool() ? 1 : 0;
    vf_w_present_o = nondet_bool() ? 1 : 0;
    vf_w_iter = nondet_bool();
    vf_present = vf_w_present;
    vf_present_o = vf_w_present_o;
    __CPROVER_assume(vf_w_key != vf_w_kstar || !vf_w_present_o);
    vf_w_size = vf_M.t.t.size;
    /* the size is at least the number of tracked entries, and an insert does not wrap it */
    __CPROVER_assume(vf_w_size >= (size_t)vf_w_present + (size_t)vf_w_present_o && vf_w_size < SIZE_MAX);
    vf_KS = vf_w_kstar;
    vf_KO = vf_w_key;
    vf_KQ = vf_w_key;
    vf_null_key = VF_IN_INT(nullkey);
    VF_IN_BOOL(ksnull); VF_IN_BOOL(konull); VF_IN_BOOL(kqnull);
    vf_node = malloc(sizeof(*vf_node));
    vf_node_o = malloc(sizeof(*vf_node_o));
    __CPROVER_assume(vf_node != NULL && vf_node_o != NULL);
    /* stored pointers: the key objects of the entries (distinct from the key object the caller
     * passes: "inserting an existing key through a different pointer"), arbitrary values */
    vf_ks = vf_w_ksnull ? NULL : (const void *)&vf_KS; vf_vs = nondet_bool() ? (void *)&vf_VS : NULL;
    vf_ko = vf_w_konull ? NULL : (const void *)&vf_KO; vf_vo = nondet_bool() ? (void *)&vf_VO : NULL;
    vf_kq = vf_w_kqnull ? NULL : (const void *)&vf_KQ;
    /* a NULL key pointer stands for the key value vf_null_key */
    __CPROVER_assume(KEYV(vf_ks) == vf_w_kstar && KEYV(vf_ko) == vf_w_key && KEYV(vf_kq) == vf_w_key);
    vf_node->key = vf_ks; vf_node->val = vf_vs;
    vf_node_o->key = vf_ko; vf_node_o->val = vf_vo;
}

void h_insert(void)
{
    vf_setup();
    {
        int r_ = cstl_map_insert(&vf_M, vf_kq, &vf_VQ, vf_w_iter ? &vf_I : NULL);
#ifdef VF_DEBUG
        if (r_ == 0 && vf_w_key == vf_w_kstar) {
            __CPROVER_assert(vf_node->key == vf_kq, "DBG key");
            __CPROVER_assert(vf_node->val == &vf_VQ, "DBG val");
            __CPROVER_assert(vf_node->val == (void *)&vf_VQ, "DBG val2");
        }
#endif
    }
    VF_END();
}
void h_find(void)
{
    vf_setup();
    cstl_map_find(&vf_M, vf_kq, &vf_I);
    VF_END();
}
void h_erase(void)
{
    vf_setup();
    cstl_map_erase(&vf_M, vf_kq, vf_w_iter ? &vf_I : NULL);
    VF_END();
}
void h_erase_iterator(void)
{
    vf_setup();
    __CPROVER_assume(vf_w_key == vf_w_kstar ? vf_w_present : vf_w_present_o);
    vf_I._ = (vf_w_key == vf_w_kstar) ? vf_node : vf_node_o;
    vf_I.key = nondet_cptr();
    vf_I.val = nondet_ptr();
    if (nondet_bool()) {
        /* the owner has already scrubbed the key storage of the entry it is about to remove */
        static int vf_SCRUB;
        vf_SCRUB = nondet_int();
        ((struct cstl_map_node *)vf_I._)->key = &vf_SCRUB;
    }
    cstl_map_erase_iterator(&vf_M, &vf_I);
    VF_END();
}
void h_clear(void)
{
    vf_setup();
    /* the two tracked entries are distinct keys here */
    cstl_map_clear(&vf_M, nondet_bool() ? vf_uclr : NULL, vf_user_priv);
    VF_END();
}
void h_node_cmp(void)
{
    struct cstl_map_node a, b;
    vf_setup();
    a.key = vf_ks; b.key = vf_kq;
    a.val = nondet_ptr(); b.val = nondet_ptr();
    cstl_map_node_cmp(nondet_bool() ? &a : &b, nondet_bool() ? &a : &b, &vf_M);
    VF_END();
}
void h_init(void)
{
    cstl_map_t m;
    cstl_map_init(&m, nondet_bool() ? vf_ucmp : NULL, nondet_ptr());
    VF_END();
}
#else /* VF_NATIVE ------------------------------------------------------------------------
 * Replay on the real code: a real map (real red-black tree) is brought into the state the
 * counterexample names -- an entry for K* if `present`, an entry for the operation's key if
 * `present_o`, two unrelated entries -- through the public API, then the operation is run and
 * the same postconditions are evaluated with public means. */
static int vf_nbad;
static int vf_P;
static int vf_ncmp(const void * a, const void * b, void * p)
{
    if (p != &vf_P) {
        vf_nbad++;
    }
    return (KEYV(a) > KEYV(b)) - (KEYV(a) < KEYV(b));
}
static cstl_map_t vf_M;
static int vf_KS, vf_KO, vf_KQ, vf_VS, vf_VO, vf_VQ, vf_F1, vf_F2;
static const void * vf_ks, * vf_ko, * vf_kq;
static cstl_map_iterator_t vf_I;
static size_t vf_n0;

static void vf_native_setup(void)
{
    long long f1, f2;
    VF_IN_INT(kstar); VF_IN_INT(key); VF_IN_INT(present); VF_IN_INT(present_o); VF_IN_BOOL(iter);
    vf_null_key = VF_IN_INT(nullkey); VF_IN_BOOL(ksnull); VF_IN_BOOL(konull); VF_IN_BOOL(kqnull);
    VF_ASSUME(vf_w_key != vf_w_kstar || !vf_w_present_o);
    vf_KS = vf_w_kstar; vf_KO = vf_w_key; vf_KQ = vf_w_key;
    vf_ks = vf_w_ksnull ? NULL : &vf_KS; vf_ko = vf_w_konull ? NULL : &vf_KO; vf_kq = vf_w_kqnull ? NULL : &vf_KQ;
    VF_ASSUME(KEYV(vf_ks) == vf_w_kstar && KEYV(vf_ko) == vf_w_key && KEYV(vf_kq) == vf_w_key);
    cstl_map_init(&vf_M, vf_ncmp, &vf_P);
    if (vf_w_present) {
        VF_NCHECK(cstl_map_insert(&vf_M, vf_ks, &vf_VS, NULL) == 0, "setup: entry for K*");
    }
    if (vf_w_present_o) {
        VF_NCHECK(cstl_map_insert(&vf_M, vf_ko, &vf_VO, NULL) == 0, "setup: entry for the operation's key");
    }
    for (f1 = 7; f1 == vf_w_kstar || f1 == vf_w_key || f1 == vf_null_key; f1++) { }
    for (f2 = -7; f2 == vf_w_kstar || f2 == vf_w_key || f2 == f1 || f2 == vf_null_key; f2--) { }
    vf_F1 = (int)f1; vf_F2 = (int)f2;
    cstl_map_insert(&vf_M, &vf_F1, NULL, NULL);
    cstl_map_insert(&vf_M, &vf_F2, NULL, NULL);
    vf_n0 = cstl_map_size(&vf_M);
    vf_I.key = &vf_F1; vf_I.val = &vf_F2; vf_I._ = &vf_I;      /* stale contents */
}
/* the entry of the key the operation does not touch is exactly as it was */
static void vf_native_other_kept(void)
{
    cstl_map_iterator_t j;
    if (vf_w_key == vf_w_kstar) {
        return;
    }
    cstl_map_find(&vf_M, vf_ks, &j);
    if (vf_w_present) {
        VF_NCHECK(j._ != NULL && j.key == vf_ks && j.val == &vf_VS, "the entry of the other key K* stays with its stored pointers");
    } else {
        VF_NCHECK(j._ == NULL, "the other key K* stays absent");
    }
}
static void vf_native_teardown(void)
{
    VF_NCHECK(vf_nbad == 0, "the user's comparison always receives the user's private pointer");
    cstl_map_clear(&vf_M, NULL, NULL);
}
void h_insert(void)
{
    int held, r;
    cstl_map_iterator_t j;
    vf_native_setup();
    held = (vf_w_key == vf_w_kstar) ? vf_w_present : vf_w_present_o;
    r = cstl_map_insert(&vf_M, vf_kq, &vf_VQ, vf_w_iter ? &vf_I : NULL);
    cstl_map_find(&vf_M, vf_kq, &j);
    if (held) {
        const void * sk = (vf_w_key == vf_w_kstar) ? (const void *)vf_ks : (const void *)vf_ko;
        void * sv = (vf_w_key == vf_w_kstar) ? (void *)&vf_VS : (void *)&vf_VO;
        VF_NCHECK(r == 1, "insert of an existing key returns 1");
        VF_NCHECK(cstl_map_size(&vf_M) == vf_n0, "insert of an existing key leaves the size");
        VF_NCHECK(j.key == sk && j.val == sv, "insert of an existing key leaves the stored key and value pointers");
        if (vf_w_iter) {
            VF_NCHECK(vf_I.key == sk && vf_I.val == sv && vf_I._ == j._, "insert of an existing key yields the existing entry");
        }
    } else {
        VF_NCHECK(r == 0, "insert of a new key returns 0");
        VF_NCHECK(cstl_map_size(&vf_M) == vf_n0 + 1, "insert of a new key grows the size by one");
        VF_NCHECK(j.key == vf_kq && j.val == &vf_VQ, "the new entry stores the given pointers");
        if (vf_w_iter) {
            VF_NCHECK(vf_I.key == vf_kq && vf_I.val == &vf_VQ && vf_I._ == j._, "insert of a new key yields the new entry");
        }
    }
    vf_native_other_kept();
    vf_native_teardown();
}
void h_find(void)
{
    int held;
    vf_native_setup();
    held = (vf_w_key == vf_w_kstar) ? vf_w_present : vf_w_present_o;
    cstl_map_find(&vf_M, vf_kq, &vf_I);
    if (held) {
        VF_NCHECK(vf_I._ != NULL && vf_I.key == ((vf_w_key == vf_w_kstar) ? (const void *)vf_ks : (const void *)vf_ko) &&
                  vf_I.val == ((vf_w_key == vf_w_kstar) ? (void *)&vf_VS : (void *)&vf_VO), "find yields the stored pointers");
    } else {
        VF_NCHECK(vf_I._ == NULL && vf_I.key == NULL && vf_I.val == NULL, "find of an absent key yields the end iterator");
    }
    VF_NCHECK(cstl_map_size(&vf_M) == vf_n0, "find changes nothing");
    vf_native_teardown();
}
void h_erase(void)
{
    int held, r;
    cstl_map_iterator_t j;
    vf_native_setup();
    held = (vf_w_key == vf_w_kstar) ? vf_w_present : vf_w_present_o;
    r = cstl_map_erase(&vf_M, vf_kq, vf_w_iter ? &vf_I : NULL);
    cstl_map_find(&vf_M, vf_kq, &j);
    VF_NCHECK(j._ == NULL, "after erase the key is absent");
    if (held) {
        VF_NCHECK(r == 0 && cstl_map_size(&vf_M) == vf_n0 - 1, "erase of a held key returns 0 and shrinks the size by one");
        if (vf_w_iter) {
            VF_NCHECK(vf_I.key == ((vf_w_key == vf_w_kstar) ? (const void *)vf_ks : (const void *)vf_ko) &&
                      vf_I.val == ((vf_w_key == vf_w_kstar) ? (void *)&vf_VS : (void *)&vf_VO) && vf_I._ == NULL,
                      "erase reports the stored pointers of the removed entry");
        }
    } else {
        VF_NCHECK(r == -1 && cstl_map_size(&vf_M) == vf_n0, "erase of an absent key returns -1 and changes nothing");
        if (vf_w_iter) {
            VF_NCHECK(vf_I.key == NULL && vf_I.val == NULL && vf_I._ == NULL, "erase of an absent key yields the end iterator");
        }
    }
    vf_native_other_kept();
    vf_native_teardown();
}
void h_erase_iterator(void)
{
    cstl_map_iterator_t j;
    vf_native_setup();
    VF_ASSUME((vf_w_key == vf_w_kstar) ? vf_w_present : vf_w_present_o);
    cstl_map_find(&vf_M, vf_kq, &vf_I);
    cstl_map_erase_iterator(&vf_M, &vf_I);
    cstl_map_find(&vf_M, vf_kq, &j);
    VF_NCHECK(j._ == NULL && cstl_map_size(&vf_M) == vf_n0 - 1, "erase by iterator removes exactly the referenced entry");
    vf_native_other_kept();
    vf_native_teardown();
}
void h_node_cmp(void)
{
    cstl_map_iterator_t j;
    vf_native_setup();
    cstl_map_find(&vf_M, vf_kq, &j);
    cstl_map_find(&vf_M, &vf_F1, &j);
    VF_NCHECK(j._ != NULL, "an unrelated entry is found");
    vf_native_teardown();
}
void h_init(void)
{
    cstl_map_init(&vf_M, vf_ncmp, &vf_P);
    VF_NCHECK(cstl_map_size(&vf_M) == 0 && vf_M.cmp.f == vf_ncmp && vf_M.cmp.p == &vf_P, "init leaves an empty map with the user's comparison");
}
struct vf_harness { const char * name; void (*fn)(void); };
struct vf_harness vf_harnesses[] = { { "h_insert", h_insert }, { "h_find", h_find }, { "h_erase", h_erase },
    { "h_erase_iterator", h_erase_iterator }, { "h_node_cmp", h_node_cmp }, { "h_init", h_init }, { NULL, NULL } };
#endif
