/* Contracts for the raw-array part of /repo/src/array.c (C11).
 *
 * find / reverse / search index arithmetic are proved for every count (loop contracts, ghost
 * index instead of quantifiers).  The functional part of search and the sorts are bounded
 * (groups rawarray.b.*): quantified sortedness is beyond cvc5 here (DESIGN section 2).
 */
#include "vf.h"
#include <stdlib.h>
#include <sys/types.h>

size_t vf_w_count, vf_w_g, vf_w_ex, vf_w_lo, vf_w_hi;
int vf_w_exv;

#ifndef VF_ESZ
#define VF_ESZ 4
#endif
#if VF_ESZ == 4
typedef int vf_el_t;
#elif VF_ESZ == 1
typedef signed char vf_el_t;
#elif VF_ESZ == 8
typedef long vf_el_t;
#endif
#define EL(arr, k)      (((const vf_el_t *)(arr))[k])
#define R_MIRROR        (vf_w_count - 1 - vf_w_g)
#define R_MAXB          ((vf_u128)1 << 40)
#define R_PRE(arr, count, size) ((size) == VF_ESZ && (vf_u128)(count) * VF_ESZ <= R_MAXB && (count) >= 1 && \
                         FRESH(arr, (count) * VF_ESZ) && vf_w_count == (count))

size_t vf_cmp_calls;
_Bool vf_cmp_bad;
/* extra invariant of the search loop, per group (the loop contract file is shared) */
#ifdef VF_G_search_func
#define VF_SEARCH_INV ((size_t)i <= vf_w_lo && j >= (ssize_t)vf_w_hi - 1)
#else
#define VF_SEARCH_INV 1
#endif
#include "memory.c"
#include "array.c"

#ifndef VF_NATIVE
const void * vf_cmp_lo;
size_t vf_cmp_n;
/* comparison of two elements by value; checks that both arguments are element addresses */
int vf_cmp(const void * a, const void * b, void * p)
{
    (void)p;
    vf_cmp_calls++;
    return (*(const vf_el_t *)a > *(const vf_el_t *)b) - (*(const vf_el_t *)a < *(const vf_el_t *)b);
}
/* arbitrary comparison outcomes (for the index-arithmetic proof of search) */
int vf_cmp_any(const void * a, const void * b, void * p)
{
    (void)a; (void)p;
    if (!__CPROVER_r_ok(b, VF_ESZ)) {
        vf_cmp_bad = 1;
    }
    vf_cmp_calls++;
    return nondet_int();
}
/* "the array is sorted and cmp is a consistent total preorder", seen from one probe: there are
 * boundaries lo <= hi such that the probe is greater than every element below lo, equal to the
 * elements of [lo, hi) and smaller than every element from hi on.  (Sorted + consistent gives such
 * boundaries for every probe; conversely the boundaries are all binary search may rely on.)
 * The sign of a non-zero outcome is fixed, its magnitude arbitrary. */
const void * vf_zone_base;
int vf_cmp_zone(const void * a, const void * b, void * p)
{
    (void)a; (void)p;
    if (!__CPROVER_r_ok(b, VF_ESZ) || !__CPROVER_same_object(b, vf_zone_base) || __CPROVER_POINTER_OFFSET(b) % VF_ESZ != 0) {
        vf_cmp_bad = 1;
        return 0;
    }
    vf_cmp_calls++;
    {
        const size_t k = __CPROVER_POINTER_OFFSET(b) / VF_ESZ;
        int m = nondet_int();
        __CPROVER_assume(m > 0);
        return k < vf_w_lo ? m : (k < vf_w_hi ? 0 : -m);
    }
}
cstl_compare_func_t * const vf_anchor_cmp_zone = vf_cmp_zone;
cstl_compare_func_t * const vf_anchor_cmp = vf_cmp;
cstl_compare_func_t * const vf_anchor_cmp_any = vf_cmp_any;
cstl_swap_func_t * const vf_anchor_swap = cstl_swap;
#endif

/* find: the first index whose element compares equal, -1 iff none */
ssize_t cstl_raw_array_find(const void * const arr, const size_t count, const size_t size,
                            const void * const ex, cstl_compare_func_t * const cmp, void * const priv)
REQUIRES(R_PRE(arr, count, size) && FRESH(ex, VF_ESZ) && cmp == vf_cmp && vf_w_g < count)
ASSIGNS(vf_cmp_calls)
ENSURES(RESULT >= -1 && RESULT < (ssize_t)count)
ENSURES(RESULT == -1 ==> EL(arr, vf_w_g) != *(const vf_el_t *)ex)
ENSURES(RESULT >= 0 ==> (EL(arr, RESULT) == *(const vf_el_t *)ex && (vf_w_g >= (size_t)RESULT || EL(arr, vf_w_g) != *(const vf_el_t *)ex)))
;

/* reverse: exactly mirrors the order, writes only inside the array and the scratch element */
void cstl_raw_array_reverse(void * const arr, const size_t count, const size_t size,
                            cstl_swap_func_t * const swap, void * const t)
REQUIRES(R_PRE(arr, count, size) && FRESH(t, VF_ESZ) && swap == cstl_swap && vf_w_g < count)
ASSIGNS(__CPROVER_object_whole(arr), __CPROVER_object_whole(t))
ENSURES(EL(arr, vf_w_g) == OLD(EL(arr, vf_w_count - 1 - vf_w_g)))
;

/* search: for arbitrary comparison outcomes every probe lies inside the array, the loop
 * terminates, and the result is -1 or the index of a probe that compared equal */
#ifndef VF_G_search_func
ssize_t cstl_raw_array_search(const void * const arr, const size_t count, const size_t size,
                              const void * const ex, cstl_compare_func_t * const cmp, void * const priv)
REQUIRES(R_PRE(arr, count, size) && FRESH(ex, VF_ESZ) && cmp == vf_cmp_any && !vf_cmp_bad)
ASSIGNS(vf_cmp_calls, vf_cmp_bad)
ENSURES(RESULT >= -1 && RESULT < (ssize_t)count && !vf_cmp_bad)
;
#endif

#ifdef VF_G_search_func
/* search on a sorted array (zone form): an index whose element compares equal iff one exists */
ssize_t cstl_raw_array_search(const void * const arr, const size_t count, const size_t size,
                              const void * const ex, cstl_compare_func_t * const cmp, void * const priv)
REQUIRES(R_PRE(arr, count, size) && FRESH(ex, VF_ESZ) && cmp == vf_cmp_zone && !vf_cmp_bad && vf_zone_base == arr)
REQUIRES(vf_w_lo <= vf_w_hi && vf_w_hi <= count)
ASSIGNS(vf_cmp_calls, vf_cmp_bad)
ENSURES(!vf_cmp_bad)
ENSURES(vf_w_lo < vf_w_hi ==> (RESULT >= 0 && (size_t)RESULT >= vf_w_lo && (size_t)RESULT < vf_w_hi))
ENSURES(vf_w_lo == vf_w_hi ==> RESULT == -1)
;
#endif

#ifndef VF_NATIVE

#if defined(VF_G_hsort_b) || defined(VF_G_hsort)
/* C11, memory safety of heap sort for EVERY count and ARBITRARY comparison outcomes: every element
 * handed to the comparison or exchanged lies inside the array, no index arithmetic overflows, the
 * loops terminate, and (frame) nothing but the array and the one scratch element is written.  What
 * the sort computes (sorted permutation) is bounded: rawarray.b.*. */
int vf_cmp_any2(const void * a, const void * b, void * p)
{
    (void)p;
    if (!__CPROVER_r_ok(a, VF_ESZ) || !__CPROVER_r_ok(b, VF_ESZ) || !__CPROVER_same_object(a, vf_zone_base) || !__CPROVER_same_object(b, vf_zone_base) ||
        __CPROVER_POINTER_OFFSET(a) % VF_ESZ != 0 || __CPROVER_POINTER_OFFSET(b) % VF_ESZ != 0) {
        vf_cmp_bad = 1;
    }
    vf_cmp_calls++;
    return nondet_int();
}
cstl_compare_func_t * const vf_anchor_cmp_any2 = vf_cmp_any2;
#ifdef VF_G_hsort_b
#define HS_OBJ(arr, count, t)  (FRESH(arr, (count) * VF_ESZ) && FRESH(t, VF_ESZ))
#else
/* (as a callee of hsort the array is the caller's object, possibly a prefix of it) */
#define HS_OBJ(arr, count, t)  (__CPROVER_rw_ok(arr, (count) * VF_ESZ) && __CPROVER_POINTER_OFFSET(arr) == 0 && __CPROVER_rw_ok(t, VF_ESZ) && !__CPROVER_same_object(arr, t))
#endif
static void cstl_raw_array_hsort_b(void * const arr, const size_t count, const size_t size, size_t n,
                                   cstl_compare_func_t * const cmp, void * const priv, cstl_swap_func_t * const swap, void * const tmp)
REQUIRES(size == VF_ESZ && count >= 1 && (vf_u128)count * VF_ESZ <= R_MAXB && HS_OBJ(arr, count, tmp) && n < count)
REQUIRES(cmp == vf_cmp_any2 && swap == cstl_swap && !vf_cmp_bad && vf_zone_base == arr)
ASSIGNS(__CPROVER_object_whole(arr), __CPROVER_object_whole(tmp), vf_cmp_calls, vf_cmp_bad)
ENSURES(!vf_cmp_bad)
;
#ifdef VF_G_hsort
void cstl_raw_array_hsort(void * const arr, const size_t count, const size_t size,
                          cstl_compare_func_t * const cmp, void * const priv, cstl_swap_func_t * const swap, void * const tmp)
REQUIRES(size == VF_ESZ && count >= 1 && (vf_u128)count * VF_ESZ <= R_MAXB && FRESH(arr, count * VF_ESZ) && FRESH(tmp, VF_ESZ))
REQUIRES(cmp == vf_cmp_any2 && swap == cstl_swap && !vf_cmp_bad && vf_zone_base == arr && vf_w_count == count)
ASSIGNS(__CPROVER_object_whole(arr), __CPROVER_object_whole(tmp), vf_cmp_calls, vf_cmp_bad)
ENSURES(!vf_cmp_bad)
;
#endif
#endif

const void * nondet_cptr(void);
void h_search_func(void)
{
    void * arr, * ex, * priv; size_t count = nondet_size_t();
    VF_IN_SIZE(count); VF_IN_SIZE(lo); VF_IN_SIZE(hi);
    vf_zone_base = nondet_cptr();     /* bound to the array by the precondition */
    cstl_raw_array_search(arr, count, VF_ESZ, ex, vf_cmp_zone, priv);
    VF_END();
}
#if defined(VF_G_hsort_b) || defined(VF_G_hsort)
void h_hsort_b(void)
{
    void * arr, * t, * priv; size_t count = nondet_size_t(), n = nondet_size_t();
    VF_IN_SIZE(count);
    vf_zone_base = nondet_cptr();
    cstl_raw_array_hsort_b(arr, count, VF_ESZ, n, vf_cmp_any2, priv, cstl_swap, t);
    VF_END();
}
#endif
#ifdef VF_G_hsort
void h_hsort(void)
{
    void * arr, * t, * priv; size_t count = nondet_size_t();
    VF_IN_SIZE(count);
    vf_zone_base = nondet_cptr();
    cstl_raw_array_hsort(arr, count, VF_ESZ, vf_cmp_any2, priv, cstl_swap, t);
    VF_END();
}
#endif
void h_find(void)
{
    void * arr, * ex, * priv; size_t count = nondet_size_t();
    VF_IN_SIZE(g); VF_IN_SIZE(count);
    cstl_raw_array_find(arr, count, VF_ESZ, ex, vf_cmp, priv);
    VF_END();
}
void h_reverse(void)
{
    void * arr, * t; size_t count = nondet_size_t();
    VF_IN_SIZE(g); VF_IN_SIZE(count);
    cstl_raw_array_reverse(arr, count, VF_ESZ, cstl_swap, t);
    VF_END();
}
void h_search_arith(void)
{
    void * arr, * ex, * priv; size_t count = nondet_size_t();
    VF_IN_SIZE(count);
    cstl_raw_array_search(arr, count, VF_ESZ, ex, vf_cmp_any, priv);
    VF_END();
}
#endif
