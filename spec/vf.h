/* Common definitions for the specification translation units.
 *
 * A spec TU   #include "vf.h",  declares contracts on prototypes,  then  #include "<module>.c"
 * (the file from /repo/src, copied to scratch by the runner with loop contracts injected and,
 * for pointer-container groups, the container-of casts normalised: see vflib/prep.py).
 *
 * Two compilation modes:
 *   CBMC   (default)    contracts are CBMC clauses, inputs are nondeterministic.
 *   NATIVE (-DVF_NATIVE) contracts vanish, inputs come from the replay file (argv), the
 *                       harness builds the pre-state itself and checks the postcondition
 *                       with native means.  Used by `vf replay`.
 */
#ifndef VF_H
#define VF_H

#include <stddef.h>
#include <stdint.h>
#include <stdbool.h>
#include <limits.h>

typedef unsigned __int128 vf_u128;

#ifndef VF_NATIVE
/* ------------------------------------------------------------------ CBMC mode */

#define REQUIRES(...)  __CPROVER_requires(__VA_ARGS__)
#define ENSURES(...)   __CPROVER_ensures(__VA_ARGS__)
#define ASSIGNS(...)   __CPROVER_assigns(__VA_ARGS__)
#define FREES(...)     __CPROVER_frees(__VA_ARGS__)
#define OLD(e)         __CPROVER_old(e)
#define RESULT         __CPROVER_return_value
#define FRESH(p, n)    __CPROVER_is_fresh(p, n)

/* abort(): the normal-return state is reachable only on non-aborting inputs */
int vf_aborted;
void abort(void)
{
    vf_aborted = 1;
#ifdef VF_CANARY
    __CPROVER_assert(0, "VF-CANARY abort reachable");   /* must FAIL in the vacuity run */
#endif
    __CPROVER_assume(0);
    while (1) { }                /* noreturn */
}

/* realloc(): CBMC's library model does not keep the contents when both sizes are symbolic
 * (measured), so the spec supplies its own model of the ISO C / glibc behaviour.  Contents
 * are preserved for one ghost window [vf_keep_off, vf_keep_off + vf_keep_len) chosen by the
 * harness; the window is arbitrary, so it stands for every window of that length.  This is an
 * assumed contract of a libc dependency (listed in every evidence file). */
void * malloc(size_t);
void free(void *);
size_t vf_keep_off, vf_keep_len;     /* ghost window 1 (byte offset within the object, length) */
size_t vf_keep_off2, vf_keep_len2;   /* ghost window 2 */
#define VF_KEEP_MAX 64
#ifndef VF_KEEP_UNIT
#define VF_KEEP_UNIT 1
#endif
#define VF_KEEP_STRUCT_(n) struct vf_keep##n
#define VF_KEEP_STRUCT__(n) VF_KEEP_STRUCT_(n)
#ifndef VF_KEEP_STRUCT
#define VF_KEEP_STRUCT VF_KEEP_STRUCT__(VF_KEEP_UNIT)
#endif
#define VF_KEEP_T(N) struct vf_keep##N { char b[N]; }
VF_KEEP_T(1); VF_KEEP_T(2); VF_KEEP_T(3); VF_KEEP_T(4); VF_KEEP_T(8); VF_KEEP_T(12); VF_KEEP_T(16); VF_KEEP_T(24); VF_KEEP_T(32); VF_KEEP_T(64);
void * realloc(void * ptr, size_t size)
{
    char * res;
    if (ptr == NULL) {
        return malloc(size);
    }
    if (size == 0) {
        free(ptr);                  /* glibc: realloc(p, 0) frees p and returns NULL */
        return NULL;
    }
    res = malloc(size);
#ifdef VF_REALLOC_FULLCOPY
    /* bounded groups with concrete sizes: copy everything (byte loop, sizes are constants there) */
    if (res != NULL) {
        const size_t old_ = __CPROVER_OBJECT_SIZE(ptr);
        const size_t n_ = old_ < size ? old_ : size;
        size_t i_;
        for (i_ = 0; i_ < n_; i_++) {
            res[i_] = ((const char *)ptr)[i_];
        }
        free(ptr);
    }
    return res;
#endif
    if (res != NULL) {
        const size_t old = __CPROVER_OBJECT_SIZE(ptr);
        /* VF_KEEP_UNIT (set by the spec TU) is the window length in bytes */
#define VF_KEEP_WINDOW(OFF, DST, SRC, LIM1, LIM2)                                                   \
        if ((OFF) <= (SIZE_MAX >> 8) && (OFF) + VF_KEEP_UNIT <= (LIM1) && (OFF) + VF_KEEP_UNIT <= (LIM2)) { \
            *(VF_KEEP_STRUCT *)((char *)(DST) + (OFF)) = *(const VF_KEEP_STRUCT *)((const char *)(SRC) + (OFF)); \
        }
        if (vf_keep_len == VF_KEEP_UNIT) {
            VF_KEEP_WINDOW(vf_keep_off, res, ptr, old, size)
        }
#ifdef VF_KEEP_TWO
        if (vf_keep_len2 == VF_KEEP_UNIT) {
            VF_KEEP_WINDOW(vf_keep_off2, res, ptr, old, size)
        }
#endif
        free(ptr);
    }
    return res;
}

#ifdef VF_MODEL_MEMCPY
/* memcpy / memmove as contracts (assumed libc behaviour): both ranges must lie inside live
 * objects (asserted for every length), the destination range is overwritten, and of the copied
 * bytes those of the two ghost windows (given as byte offsets inside the SOURCE object) are
 * tracked; the windows are arbitrary, so they stand for every byte. */
static void * vf_copy_model(void * dst, const void * src, size_t n)
{
    __CPROVER_assert(n == 0 || __CPROVER_r_ok(src, n), "memcpy/memmove: source range inside a live object");
    __CPROVER_assert(n == 0 || __CPROVER_w_ok(dst, n), "memcpy/memmove: destination range inside a live object");
    if (n > 0) {
        const size_t so = __CPROVER_POINTER_OFFSET(src);
        struct vf_keep4 w1, w2;
        char c1, c2;
        const _Bool in1 = (vf_keep_len == 1 || vf_keep_len == 4) && vf_keep_off >= so && vf_keep_off - so <= n &&
                          vf_keep_len <= n - (vf_keep_off - so);
        const _Bool in2 = (vf_keep_len2 == 1 || vf_keep_len2 == 4) && vf_keep_off2 >= so && vf_keep_off2 - so <= n &&
                          vf_keep_len2 <= n - (vf_keep_off2 - so);
        const char * const s1 = (const char *)src + (vf_keep_off - so);
        const char * const s2 = (const char *)src + (vf_keep_off2 - so);
        if (in1) { if (vf_keep_len == 1) { c1 = *s1; } else { w1 = *(const struct vf_keep4 *)s1; } }
        if (in2) { if (vf_keep_len2 == 1) { c2 = *s2; } else { w2 = *(const struct vf_keep4 *)s2; } }
        __CPROVER_havoc_slice(dst, n);
        if (in1) { char * const d1 = (char *)dst + (vf_keep_off - so);
                   if (vf_keep_len == 1) { *d1 = c1; } else { *(struct vf_keep4 *)d1 = w1; } }
        if (in2) { char * const d2 = (char *)dst + (vf_keep_off2 - so);
                   if (vf_keep_len2 == 1) { *d2 = c2; } else { *(struct vf_keep4 *)d2 = w2; } }
    }
    return dst;
}
void * memcpy(void * dst, const void * src, size_t n) { return vf_copy_model(dst, src, n); }
void * memmove(void * dst, const void * src, size_t n) { return vf_copy_model(dst, src, n); }
#endif

/* named nondeterministic inputs; the assignment makes the value visible in the trace */
size_t nondet_size_t(void);
int nondet_int(void);
unsigned nondet_unsigned(void);
_Bool nondet_bool(void);
unsigned char nondet_uchar(void);
long nondet_long(void);
/* -DVF_SMALL_WITNESS=n (used by the runner when it fetches the counterexample of an obligation that
 * already failed): prefer a counterexample whose named inputs are small, so that the native replay
 * can rebuild the state through the public API; if none exists the runner falls back to any. */
#ifdef VF_SMALL_WITNESS
static inline size_t vf_small_size(size_t v) { __CPROVER_assume(v <= VF_SMALL_WITNESS); return v; }
static inline int vf_small_int(int v) { __CPROVER_assume(v >= -(VF_SMALL_WITNESS) && v <= VF_SMALL_WITNESS); return v; }
#define VF_IN_SIZE(name)   (vf_w_##name = vf_small_size(nondet_size_t()))
#define VF_IN_INT(name)    (vf_w_##name = vf_small_int(nondet_int()))
#else
#define VF_IN_SIZE(name)   (vf_w_##name = nondet_size_t())
#define VF_IN_INT(name)    (vf_w_##name = nondet_int())
#endif
#define VF_IN_BOOL(name)   (vf_w_##name = nondet_bool())

/* end of harness: goal "normal return reachable" of the vacuity run */
#ifdef VF_CANARY
#define VF_END()          __CPROVER_assert(0, "VF-CANARY normal return reachable")   /* must FAIL in the vacuity run */
#define VF_REACH(c, msg)  __CPROVER_assert(!(c), "VF-CANARY " msg)
#else
#define VF_END()          ((void)0)
#define VF_REACH(c, msg)  ((void)0)
#endif

#define VF_ASSERT(c, msg)  __CPROVER_assert(c, msg)
#define VF_ASSUME(c)       __CPROVER_assume(c)
#define VF_SCEN(nt)        ((void)0)

#else
/* ---------------------------------------------------------------- NATIVE mode */
#include <stdio.h>
#include <stdlib.h>
#include <string.h>
#include <signal.h>
#include <setjmp.h>
#include <malloc.h>

#define REQUIRES(...)
#define ENSURES(...)
#define ASSIGNS(...)
#define FREES(...)

extern int vf_argc;
extern char ** vf_argv;
static inline unsigned long long vf_input(const char * name, int * found)
{
    int i;
    size_t n = strlen(name);
    for (i = 0; i < vf_argc; i++) {
        if (strncmp(vf_argv[i], name, n) == 0 && vf_argv[i][n] == '=') {
            if (found) *found = 1;
            return strtoull(vf_argv[i] + n + 1, NULL, 0);
        }
    }
    if (found) *found = 0;
    return 0;
}
#define VF_IN_SIZE(name)   (vf_w_##name = (size_t)vf_input(#name, NULL))
#define VF_IN_INT(name)    (vf_w_##name = (int)vf_input(#name, NULL))
#define VF_IN_BOOL(name)   (vf_w_##name = (_Bool)vf_input(#name, NULL))

extern int vf_native_failures;
extern unsigned long vf_native_checks, vf_native_scen, vf_native_scen_nt;
void vf_native_note(const char * msg);
#define VF_NCHECK(c, msg) do { vf_native_checks++; vf_native_note(msg); if (!(c)) { vf_native_failures++; \
        printf("NATIVE-CHECK-FAILED: %s\n", msg); } } while (0)
/* one enumerated scenario of a bounded harness; nt: non-trivial by the harness's own rule */
#define VF_SCEN(nt)       do { vf_native_scen++; if (nt) vf_native_scen_nt++; } while (0)
#define VF_END()
#define VF_REACH(c, msg)
#define VF_ASSERT(c, msg)  VF_NCHECK(c, msg)
#define VF_ASSUME(c)       do { if (!(c)) { printf("NATIVE-PRECONDITION-NOT-MET: %s\n", #c); exit(3); } } while (0)
#endif

/* Comparison results for the bounded harnesses: only the SIGN of a comparison is specified, so
 * the magnitude follows a fixed pattern over the calls (1s, where two results tie, and larger
 * values); a subtracting comparator would hide code that relies on magnitudes (seeded change C07-2). */
/* the value with which the k-th visit asks a traversal to stop: any NON-ZERO value stops it and is
 * returned, negative ones included (seeded change C12-8 stopped only for positive results) */
#define VF_STOPVAL(k) (((k) & 1) ? -(7 + (k)) : (7 + (k)))
/* the private pointer every harness hands to its comparison function; the comparison insists on it
 * (seeded change C12-6 passed NULL in one recursive call) */
static int vf_cmp_token;
#define VF_CMP_PRIV ((void *)&vf_cmp_token)
static inline int vf_signmag(int gt, int lt)
{
    static const int mag[4] = { 2, 1, 1, 3 };
    static unsigned calls;
    const int m = mag[calls++ % 4];
    return gt ? m : (lt ? -m : 0);
}

#endif
