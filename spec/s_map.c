/* Contracts for /repo/src/map.c (C08, C15 map part, C16 map part).
 *
 * B groups only: the real map code (map.c on top of rbtree.c and bintree.c) is executed on
 * CONCRETE operation scripts; a reference model (present / stored key pointer / stored value
 * pointer per key) is kept in plain arrays and compared with the map after EVERY operation:
 * size, find of every key, and a walk of the underlying red-black tree (parent links, strict
 * key order, root black, no red-red edge, equal black count on every root-to-NULL path, every
 * tree node is a live node the map allocated).
 *
 * Allocation: map.c's calls of malloc/free are redirected (token-wise, `#define malloc vf_malloc`
 * around the three #include lines only) to the accounting allocator below.  It
 *   - checks the requested size, counts calls, fails the call number vf_fail_at (C16) without
 *     any nondeterminism,
 *   - records every block handed out, asserts that free() is only called on live blocks of the
 *     map (no double free, no foreign free), counts live blocks (leak audit),
 *   - VF_ARENA: hands out separate static node objects (all pointers concrete; a freed node is
 *     poisoned, its links point to a sentinel, and the poison is re-checked before reuse and at
 *     the end of every script, so that a write after free is seen);
 *     without VF_ARENA: forwards to the real malloc/free (CBMC's model with its
 *     deallocated-object checks and --memory-leak-check; libc + ASan in the native replay).
 *
 * The container-of casts of bintree.c / rbtree.c are normalised in the scratch copy (vflib/prep.py).
 */
#include "vf.h"
#include <stdlib.h>

static void * vf_malloc(size_t n);
static void vf_free(void * p);
#define malloc vf_malloc
#define free   vf_free
#include "bintree.c"
#include "rbtree.c"
#include "map.c"
#undef malloc
#undef free

/* checks are executed by the thousand: natively only failures are printed */
#ifdef VF_NATIVE
#define MA(c, msg) do { if (!(c)) { VF_ASSERT(0, msg); } } while (0)
#else
#define MA(c, msg) VF_ASSERT(c, msg)
#endif

#ifndef VF_NK
#define VF_NK 3                    /* keys used by the scripts */
#endif
#define VF_NKMAX 6
static int K[VF_NKMAX]  = { 0, 1, 2, 3, 4, 5 };     /* key objects */
static int K2[VF_NKMAX] = { 0, 1, 2, 3, 4, 5 };     /* equal keys at other addresses */
static int P[VF_NKMAX]  = { 0, 1, 2, 3, 4, 5 };     /* probes for find / erase: never stored */
static int V[16];                                   /* value objects: operation t uses &V[t] */
static int vf_junk;
static int vf_cmp_cookie, vf_clr_cookie;

/* ------------------------------------------------------------------ accounting allocator */
#define VF_NBLK 12
static int vf_fail_at = -1;        /* number of the malloc call that fails (-1: none) */
static int vf_mallocs, vf_frees;   /* calls so far in this script */
static int vf_live_n;              /* blocks handed out and not yet freed */
static int vf_last_blk = -1, vf_last_freed = -1;
static int vf_live[VF_NBLK];
#ifdef VF_ARENA
static struct cstl_map_node vf_s0, vf_s1, vf_s2, vf_s3, vf_s4, vf_s5, vf_s6, vf_s7, vf_s8, vf_s9, vf_s10, vf_s11;
static struct cstl_map_node * const vf_blk[VF_NBLK] = { &vf_s0, &vf_s1, &vf_s2, &vf_s3, &vf_s4, &vf_s5, &vf_s6, &vf_s7, &vf_s8, &vf_s9, &vf_s10, &vf_s11 };
static int vf_used[VF_NBLK];
static struct cstl_bintree_node vf_poison;   /* sentinel: the links of a freed node point here */
static void vf_poison_blk(int k)
{
    vf_blk[k]->key = NULL; vf_blk[k]->val = NULL;
    vf_blk[k]->n.n.p = vf_blk[k]->n.n.l = vf_blk[k]->n.n.r = &vf_poison;
}
static int vf_is_poison(int k)
{
    return vf_blk[k]->key == NULL && vf_blk[k]->val == NULL && vf_blk[k]->n.n.p == &vf_poison &&
           vf_blk[k]->n.n.l == &vf_poison && vf_blk[k]->n.n.r == &vf_poison;
}
#else
static struct cstl_map_node * vf_blk[VF_NBLK];
static int vf_nblk;
#endif

static void * vf_malloc(size_t n)
{
    int k;
    MA(n == sizeof(struct cstl_map_node), "map: every allocation is exactly one map node");
    if (vf_mallocs++ == vf_fail_at) {
        return NULL;
    }
#ifdef VF_ARENA
    for (k = 0; k < VF_NBLK; k++) {
        if (!vf_live[k]) break;
    }
    MA(k < VF_NBLK, "harness: arena large enough");
    if (k >= VF_NBLK) return NULL;
    if (vf_used[k]) {
        MA(vf_is_poison(k), "map: a freed node is not written to after free()");
    }
    vf_used[k] = 1;
#else
    k = vf_nblk;
    MA(k < VF_NBLK, "harness: block table large enough");
    if (k >= VF_NBLK) return NULL;
    vf_blk[k] = malloc(n);
    VF_ASSUME(vf_blk[k] != NULL);
    vf_nblk++;
#endif
    vf_live[k] = 1;
    vf_live_n++;
    vf_last_blk = k;
    return vf_blk[k];
}

static void vf_free(void * p)
{
    int k;
    vf_frees++;
    MA(p != NULL, "map: free() is never called with NULL");
    for (k = 0; k < VF_NBLK; k++) {
        if (vf_live[k] && (void *)vf_blk[k] == p) break;
    }
    MA(k < VF_NBLK, "map: free() only on a live node allocated by the map (no double free, no foreign pointer)");
    if (k >= VF_NBLK) return;
    vf_live[k] = 0;
    vf_live_n--;
    vf_last_freed = k;
#ifdef VF_ARENA
    vf_poison_blk(k);
#else
    free(p);
#endif
}

/* ------------------------------------------------------------------ reference model */
static int vf_present[VF_NKMAX];
static const void * vf_skey[VF_NKMAX];      /* the key pointer stored by the first successful insert */
static void * vf_sval[VF_NKMAX];            /* the value pointer stored with it */
static int vf_nodeof[VF_NKMAX];             /* ghost: block that carries the entry */
static int vf_max_size;

static int vf_cmp(const void * a, const void * b, void * p)
{
    MA(p == &vf_cmp_cookie, "map: the compare callback receives the private pointer given to init");
    return *(const int *)a - *(const int *)b;
}

static void vf_reset(cstl_map_t * m)
{
    int k;
    for (k = 0; k < VF_NKMAX; k++) { vf_present[k] = 0; vf_skey[k] = NULL; vf_sval[k] = NULL; vf_nodeof[k] = -1; }
    MA(vf_live_n == 0, "harness: previous script left nothing allocated");
    vf_mallocs = vf_frees = 0;
    vf_last_blk = vf_last_freed = -1;
    vf_fail_at = -1;
#ifndef VF_ARENA
    for (k = 0; k < VF_NBLK; k++) { vf_live[k] = 0; vf_blk[k] = NULL; }
    vf_nblk = 0;
#endif
    cstl_map_init(m, vf_cmp, &vf_cmp_cookie);
}

/* which live block contains this tree node? */
static int vf_blk_of(const struct cstl_bintree_node * bn)
{
    int k;
    for (k = 0; k < VF_NBLK; k++) {
        if (vf_live[k] && &vf_blk[k]->n.n == bn) return k;
    }
    return -1;
}

/* number of black nodes from block k up to the root (bounded climb) */
static int vf_blacks_to_root(int k, int n)
{
    int cnt = 0, steps;
    for (steps = 0; steps <= n && k >= 0; steps++) {
        const struct cstl_map_node * x = vf_blk[k];
        if (x->n.c == CSTL_RBTREE_COLOR_B) cnt++;
        k = x->n.n.p == NULL ? -1 : vf_blk_of(x->n.n.p);
    }
    MA(k < 0, "map tree: parent chain reaches the root within size steps");
    return cnt;
}

/* in-order walk of m->t.t (iterative, by the parent links which are validated on the way) */
static void vf_check_tree(const cstl_map_t * m, int n)
{
    const struct cstl_bintree_node * root = m->t.t.root;
    int cur, cnt = 0, prevkey = -1, bh = -1, steps;
    MA(m->t.t.size == (size_t)n, "map tree: size field equals the number of entries");
    if (n == 0) {
        MA(root == NULL, "map tree: empty map has no root");
        return;
    }
    MA(root != NULL, "map tree: non-empty map has a root");
    if (root == NULL) return;
    cur = vf_blk_of(root);
    MA(cur >= 0, "map tree: the root is a live node allocated by the map");
    if (cur < 0) return;
    MA(vf_blk[cur]->n.n.p == NULL, "map tree: root has no parent");
    MA(vf_blk[cur]->n.c == CSTL_RBTREE_COLOR_B, "map tree: root is black");
    /* leftmost */
    for (steps = 0; steps <= n && vf_blk[cur]->n.n.l != NULL; steps++) {
        int c = vf_blk_of(vf_blk[cur]->n.n.l);
        MA(c >= 0, "map tree: every child is a live node allocated by the map");
        if (c < 0) return;
        MA(vf_blk[c]->n.n.p == &vf_blk[cur]->n.n, "map tree: parent link of a left child points back");
        cur = c;
    }
    MA(vf_blk[cur]->n.n.l == NULL, "map tree: left spine no longer than size");
    while (cur >= 0 && cnt <= n) {
        const struct cstl_map_node * x = vf_blk[cur];
        int kv, lc = -1, rc = -1;
        cnt++;
        /* the entry */
        MA(x->key != NULL, "map tree: node carries a key");
        if (x->key == NULL) return;
        kv = *(const int *)x->key;
        MA(kv >= 0 && kv < VF_NKMAX && vf_present[kv], "map tree: node key is a key of the model");
        if (!(kv >= 0 && kv < VF_NKMAX)) return;
        MA(vf_nodeof[kv] == cur && x->key == vf_skey[kv] && x->val == vf_sval[kv], "map tree: node holds the stored key and value pointers of its entry");
        MA(kv > prevkey, "map tree: keys strictly ascending in order (one entry per key)");
        prevkey = kv;
        /* links and colours */
        MA(x->n.c == CSTL_RBTREE_COLOR_R || x->n.c == CSTL_RBTREE_COLOR_B, "map tree: colour is red or black");
        if (x->n.n.l != NULL) {
            lc = vf_blk_of(x->n.n.l);
            MA(lc >= 0, "map tree: every child is a live node allocated by the map");
            if (lc < 0) return;
            MA(vf_blk[lc]->n.n.p == &x->n.n, "map tree: parent link of a left child points back");
            MA(!(x->n.c == CSTL_RBTREE_COLOR_R && vf_blk[lc]->n.c == CSTL_RBTREE_COLOR_R), "map tree: no red node has a red child");
        }
        if (x->n.n.r != NULL) {
            rc = vf_blk_of(x->n.n.r);
            MA(rc >= 0, "map tree: every child is a live node allocated by the map");
            if (rc < 0) return;
            MA(vf_blk[rc]->n.n.p == &x->n.n, "map tree: parent link of a right child points back");
            MA(!(x->n.c == CSTL_RBTREE_COLOR_R && vf_blk[rc]->n.c == CSTL_RBTREE_COLOR_R), "map tree: no red node has a red child");
        }
        if (lc < 0 || rc < 0) {
            const int b = vf_blacks_to_root(cur, n);
            MA(bh < 0 || b == bh, "map tree: equal number of black nodes on every root-to-NULL path");
            bh = b;
        }
        /* successor */
        if (rc >= 0) {
            cur = rc;
            for (steps = 0; steps <= n && vf_blk[cur]->n.n.l != NULL; steps++) {
                int c = vf_blk_of(vf_blk[cur]->n.n.l);
                MA(c >= 0, "map tree: every child is a live node allocated by the map");
                if (c < 0) return;
                MA(vf_blk[c]->n.n.p == &vf_blk[cur]->n.n, "map tree: parent link of a left child points back");
                cur = c;
            }
            MA(vf_blk[cur]->n.n.l == NULL, "map tree: left spine no longer than size");
        } else {
            int c = cur, up = -1;
            for (steps = 0; steps <= n; steps++) {
                const struct cstl_bintree_node * pp = vf_blk[c]->n.n.p;
                if (pp == NULL) { up = -1; break; }
                up = vf_blk_of(pp);
                MA(up >= 0, "map tree: every parent is a live node allocated by the map");
                if (up < 0) return;
                MA(vf_blk[up]->n.n.l == &vf_blk[c]->n.n || vf_blk[up]->n.n.r == &vf_blk[c]->n.n, "map tree: a node is a child of its parent");
                if (vf_blk[up]->n.n.l == &vf_blk[c]->n.n) break;
                c = up; up = -1;
            }
            MA(steps <= n, "map tree: climb ends within size steps");
            cur = up;
        }
    }
    MA(cur < 0 && cnt == n, "map tree: the walk visits exactly size nodes");
}

static void vf_check_find(const cstl_map_t * m, int i, const void * probe)
{
    cstl_map_iterator_t it;
    it._ = &vf_junk; it.key = &vf_junk; it.val = &vf_junk;
    cstl_map_find(m, probe, &it);
    if (vf_present[i]) {
        MA(!cstl_map_iterator_eq(&it, cstl_map_iterator_end(m)), "find: a present key is found");
        MA(it.key == vf_skey[i] && it.val == vf_sval[i], "find: yields the stored key and value pointers");
        MA(it._ == (void *)vf_blk[vf_nodeof[i]], "find: the iterator refers to the node of the entry");
    } else {
        MA(cstl_map_iterator_eq(&it, cstl_map_iterator_end(m)), "find: an absent key yields the end iterator");
        MA(it.key == NULL && it.val == NULL, "find: the end iterator carries no key or value");
    }
}

static void vf_check(const cstl_map_t * m)
{
    int i, n = 0;
    for (i = 0; i < VF_NKMAX; i++) n += vf_present[i];
    if (n > vf_max_size) vf_max_size = n;
    MA(cstl_map_size(m) == (size_t)n, "map: size equals the number of keys inserted and not erased");
    MA(vf_live_n == n, "map: exactly one allocated node per entry");
    for (i = 0; i < VF_NK; i++) {
        vf_check_find(m, i, &P[i]);
    }
    vf_check_tree(m, n);
}

/* ------------------------------------------------------------------ operations with their postconditions */
enum { OP_INS = 0, OP_INS2 = 1, OP_ERASE = 2, OP_ERASE_IT = 3, OP_FIND = 4, OP_KINDS = 5 };

/* returns 0 when the operation is not applicable (erase by iterator of an absent key) */
static int vf_op(cstl_map_t * m, int kind, int i, int t, int use_it)
{
    cstl_map_iterator_t it;
    int r;
    const int m0 = vf_mallocs, f0 = vf_frees;
    it._ = &vf_junk; it.key = &vf_junk; it.val = &vf_junk;
    if (kind == OP_INS || kind == OP_INS2) {
        const void * key = kind == OP_INS ? (const void *)&K[i] : (const void *)&K2[i];
        void * val = &V[t];
        const int fails = !vf_present[i] && vf_mallocs == vf_fail_at;
        r = cstl_map_insert(m, key, val, use_it ? &it : NULL);
        MA(vf_frees == f0, "insert: releases nothing");
        if (vf_present[i]) {
            MA(r == 1, "insert: an existing key returns 1");
            MA(vf_mallocs == m0, "insert: an existing key allocates nothing");
            if (use_it) {
                MA(it.key == vf_skey[i] && it.val == vf_sval[i], "insert: existing key: the iterator carries the stored (untouched) key and value pointers");
                MA(it._ == (void *)vf_blk[vf_nodeof[i]], "insert: existing key: the iterator refers to the existing entry");
            }
        } else if (fails) {
            MA(r == -1, "insert: allocation failure returns -1");
            MA(vf_mallocs == m0 + 1, "insert: one allocation attempt");
            if (use_it) {
                MA(cstl_map_iterator_eq(&it, cstl_map_iterator_end(m)), "insert: allocation failure yields the end iterator");
                MA(it.key == NULL && it.val == NULL, "insert: allocation failure: the iterator carries no key or value");
            }
        } else {
            MA(r == 0, "insert: a new key returns 0");
            MA(vf_mallocs == m0 + 1 && vf_last_blk >= 0, "insert: a new key allocates exactly one node");
            if (r != 0 || vf_last_blk < 0) return 1;
            vf_present[i] = 1; vf_skey[i] = key; vf_sval[i] = val; vf_nodeof[i] = vf_last_blk;
            if (use_it) {
                MA(it.key == key && it.val == val, "insert: new key: the iterator carries the given key and value pointers");
                MA(it._ == (void *)vf_blk[vf_last_blk], "insert: new key: the iterator refers to the new entry");
            }
        }
    } else if (kind == OP_ERASE) {
        r = cstl_map_erase(m, &P[i], use_it ? &it : NULL);
        MA(vf_mallocs == m0, "erase: allocates nothing");
        if (vf_present[i]) {
            MA(r == 0, "erase: a present key returns 0");
            MA(vf_frees == f0 + 1 && vf_last_freed == vf_nodeof[i], "erase: releases exactly the node of the entry");
            if (use_it) {
                MA(it.key == vf_skey[i] && it.val == vf_sval[i], "erase: reports the stored key and value pointers of the removed entry");
                MA(cstl_map_iterator_eq(&it, cstl_map_iterator_end(m)), "erase: the reported iterator compares equal to end");
            }
            vf_present[i] = 0; vf_nodeof[i] = -1;
        } else {
            MA(r == -1, "erase: an absent key returns -1");
            MA(vf_frees == f0, "erase: an absent key releases nothing");
            if (use_it) {
                MA(cstl_map_iterator_eq(&it, cstl_map_iterator_end(m)), "erase: an absent key yields the end iterator");
                MA(it.key == NULL && it.val == NULL, "erase: absent key: the iterator carries no key or value");
            }
        }
    } else if (kind == OP_ERASE_IT) {
        cstl_map_iterator_t it2;
        if (!vf_present[i]) return 0;
        cstl_map_find(m, &K2[i], &it);
        MA(!cstl_map_iterator_eq(&it, cstl_map_iterator_end(m)), "find: a present key is found");
        MA(it.key == vf_skey[i] && it.val == vf_sval[i], "find: yields the stored key and value pointers");
        MA(it._ == (void *)vf_blk[vf_nodeof[i]], "find: the iterator refers to the node of the entry");
        /* hand the iterator back with the address known to the harness (asserted equal above) */
        it2.key = it.key; it2.val = it.val; it2._ = vf_blk[vf_nodeof[i]];
        cstl_map_erase_iterator(m, &it2);
        MA(vf_mallocs == m0, "erase by iterator: allocates nothing");
        MA(vf_frees == f0 + 1 && vf_last_freed == vf_nodeof[i], "erase by iterator: releases exactly the node of the entry");
        vf_present[i] = 0; vf_nodeof[i] = -1;
    } else {
        vf_check_find(m, i, &K2[i]);
        MA(vf_mallocs == m0 && vf_frees == f0, "find: allocates and releases nothing");
    }
    vf_check(m);
    return 1;
}

/* ------------------------------------------------------------------ clear */
static int vf_clr_seen[VF_NKMAX], vf_clr_n;
static void vf_clr(void * e, void * p)
{
    cstl_map_iterator_t * it = e;
    int kv;
    MA(p == &vf_clr_cookie, "clear: the callback receives the private pointer given to clear");
    MA(it->_ == NULL, "clear: the callback gets a detached iterator");
    MA(it->key != NULL, "clear: the callback gets a key");
    if (it->key == NULL) return;
    kv = *(const int *)it->key;
    MA(kv >= 0 && kv < VF_NKMAX && vf_present[kv], "clear: the callback gets an entry of the map");
    if (!(kv >= 0 && kv < VF_NKMAX)) return;
    MA(it->key == vf_skey[kv] && it->val == vf_sval[kv], "clear: the callback gets the stored key and value pointers of the entry");
    MA(!vf_clr_seen[kv], "clear: each entry is handed over at most once");
    MA(vf_live[vf_nodeof[kv]], "clear: the node of the entry is still allocated when the callback runs");
    vf_clr_seen[kv] = 1;
    vf_clr_n++;
    it->key = NULL; it->val = NULL;      /* the callback owns the iterator it is given */
}

static void vf_audit(void)
{
    MA(vf_live_n == 0, "map: everything the map allocated has been released");
    MA(vf_frees + (vf_fail_at >= 0 && vf_mallocs > vf_fail_at ? 1 : 0) == vf_mallocs, "map: one free per successful allocation");
#ifdef VF_ARENA
    {
        int k;
        for (k = 0; k < VF_NBLK; k++) {
            MA(!vf_live[k], "map: no node left allocated");
            if (vf_used[k]) MA(vf_is_poison(k), "map: a freed node is not written to after free()");
        }
    }
#endif
}

/* clear (with or without callback), compare with the model, show the map is usable, release everything */
static void vf_finish(cstl_map_t * m, int with_cb)
{
    int i, n = 0;
    const int f0 = vf_frees, m0 = vf_mallocs;
    for (i = 0; i < VF_NKMAX; i++) { n += vf_present[i]; vf_clr_seen[i] = 0; }
    vf_clr_n = 0;
    cstl_map_clear(m, with_cb ? vf_clr : NULL, &vf_clr_cookie);
    if (with_cb) {
        MA(vf_clr_n == n, "clear: the callback runs exactly once per entry");
        for (i = 0; i < VF_NKMAX; i++) MA(vf_clr_seen[i] == vf_present[i], "clear: every entry (and nothing else) was handed over");
    }
    MA(vf_frees == f0 + n && vf_mallocs == m0, "clear: releases exactly one node per entry");
    for (i = 0; i < VF_NKMAX; i++) { vf_present[i] = 0; vf_nodeof[i] = -1; }
    MA(cstl_map_size(m) == 0 && m->t.t.root == NULL, "clear: the map is empty");
    vf_check(m);
    vf_audit();
    /* still usable */
    vf_op(m, OP_INS2, 1, 10, 1);
    vf_op(m, OP_INS, 0, 11, 0);
    vf_op(m, OP_INS, 1, 12, 1);
    vf_op(m, OP_ERASE, 1, 13, 1);
    cstl_map_clear(m, NULL, NULL);
    vf_present[0] = 0; vf_nodeof[0] = -1;
    vf_check(m);
    vf_audit();
}

/* ------------------------------------------------------------------ B1: all operation scripts */
#ifndef VF_LEN
#define VF_LEN 4
#endif
#define VF_NOPS (OP_KINDS * VF_NK)
#ifndef VF_FIRST_LO
#define VF_FIRST_LO 0
#endif
#ifndef VF_FIRST_HI
#define VF_FIRST_HI (VF_NOPS - 1)
#endif
#ifndef VF_SECOND_LO
#define VF_SECOND_LO 0
#endif
#ifndef VF_SECOND_HI
#define VF_SECOND_HI (VF_NOPS - 1)
#endif

#if defined(VF_B) && VF_B == 1
/* every script of exactly VF_LEN operations (every shorter script is a prefix and is checked on the
 * way) whose first operation lies in [VF_FIRST_LO, VF_FIRST_HI]; operation code = kind * VF_NK + key */
static int vf_scripts;
static void vf_run_script(const int * ops, int len)
{
    cstl_map_t m;
    int t;
    vf_reset(&m);
    vf_check(&m);
    for (t = 0; t < len; t++) {
        /* insert and erase get an iterator except at odd positions of scripts with an odd code sum */
        if (!vf_op(&m, ops[t] / VF_NK, ops[t] % VF_NK, t, !((t & 1) && (ops[0] & 1)))) {
            break;          /* not applicable: the script equals a shorter one */
        }
    }
    vf_finish(&m, 1);
    vf_scripts++;
}
void h_b_script(void)
{
    int ops[5];
    const int n1 = VF_LEN > 1 ? VF_NOPS : 1, n2 = VF_LEN > 2 ? VF_NOPS : 1, n3 = VF_LEN > 3 ? VF_NOPS : 1, n4 = VF_LEN > 4 ? VF_NOPS : 1;
    for (ops[0] = VF_FIRST_LO; ops[0] <= VF_FIRST_HI; ops[0]++) {
        for (ops[1] = (VF_LEN > 1 ? VF_SECOND_LO : 0); ops[1] < n1 && ops[1] <= VF_SECOND_HI; ops[1]++) {
            for (ops[2] = 0; ops[2] < n2; ops[2]++) {
                for (ops[3] = 0; ops[3] < n3; ops[3]++) {
                    for (ops[4] = 0; ops[4] < n4; ops[4]++) {
                        vf_run_script(ops, VF_LEN);
                    }
                }
            }
        }
        VF_REACH(ops[0] == VF_FIRST_HI && vf_max_size >= (VF_LEN - 1 < VF_NK ? VF_LEN - 1 : VF_NK), "last first-operation exercised, fullest map reached");
    }
    VF_END();
}
#endif

/* ------------------------------------------------------------------ B2: clear on maps from every insertion order */
#if defined(VF_B) && VF_B == 2
#ifndef VF_ORD_N
#define VF_ORD_N 4
#endif
/* every sequence of 0..VF_ORD_N distinct keys out of VF_ORD_N, inserted in that order; then clear
 * with the recording callback (pass 0) or without callback (pass 1) */
static int vf_orders;
static void vf_run_order(const int * seq, int len, int pass)
{
    cstl_map_t m;
    int t;
    vf_reset(&m);
    for (t = 0; t < len; t++) {
        vf_op(&m, (seq[t] + t) & 1 ? OP_INS2 : OP_INS, seq[t], t, !(t & 1));
    }
    vf_finish(&m, pass == 0);
    vf_orders++;
}
void h_b_clear(void)
{
    int seq[6], len, pass;
    for (pass = 0; pass < 2; pass++) {
        for (len = 0; len <= VF_ORD_N; len++) {
            /* odometer over sequences of distinct keys */
            int code, ncodes = 1, k, j;
            for (k = 0; k < len; k++) ncodes *= VF_ORD_N;
            for (code = 0; code < ncodes; code++) {
                int c = code, distinct = 1;
                for (k = 0; k < len; k++) { seq[k] = c % VF_ORD_N; c /= VF_ORD_N; }
                for (k = 0; k < len; k++) for (j = 0; j < k; j++) if (seq[j] == seq[k]) distinct = 0;
                if (distinct) vf_run_order(seq, len, pass);
            }
            VF_REACH(pass == 1 && len == VF_ORD_N && vf_max_size == VF_ORD_N, "largest map cleared without callback");
        }
    }
    VF_END();
}
#endif

/* ------------------------------------------------------------------ B3: allocation failure at a chosen insert (C16) */
#if defined(VF_B) && VF_B == 3
#ifndef VF_FLEN
#define VF_FLEN 3
#endif
/* scripts of VF_FLEN operations over {insert K[i], insert K2[i], erase i}; for every script every choice of
 * the failing allocation; after the script the failed insert is repeated (now it succeeds) */
static int vf_failed_inserts;
void h_b_fail(void)
{
    int ops[4], fail;
    const int nops = 3 * VF_NK;
    const int n1 = VF_FLEN > 1 ? nops : 1, n2 = VF_FLEN > 2 ? nops : 1, n3 = VF_FLEN > 3 ? nops : 1;
    for (ops[0] = VF_FIRST_LO; ops[0] <= (VF_FIRST_HI < nops - 1 ? VF_FIRST_HI : nops - 1); ops[0]++) {
        for (ops[1] = 0; ops[1] < n1; ops[1]++) {
            for (ops[2] = 0; ops[2] < n2; ops[2]++) {
                for (ops[3] = 0; ops[3] < n3; ops[3]++) {
                    for (fail = 0; fail < VF_FLEN; fail++) {
                        cstl_map_t m;
                        int t, failed_t = -1;
                        vf_reset(&m);
                        vf_fail_at = fail;
                        for (t = 0; t < VF_FLEN; t++) {
                            const int kind = ops[t] / VF_NK, i = ops[t] % VF_NK;
                            const int before = vf_mallocs;
                            vf_op(&m, kind, i, t, 1);
                            if (before == fail && vf_mallocs == fail + 1) failed_t = t;
                        }
                        if (failed_t < 0) {
                            /* the script has fewer than fail+1 allocations: nothing failed; larger choices neither */
                            MA(vf_mallocs <= fail, "harness: no failure only if the script allocates less often");
                            vf_finish(&m, 1);
                            break;
                        }
                        vf_failed_inserts++;
                        /* the map stayed usable: the same insert now goes through (or meets the key inserted meanwhile) */
                        vf_op(&m, ops[failed_t] / VF_NK, ops[failed_t] % VF_NK, 5, 1);
                        vf_op(&m, ops[failed_t] / VF_NK, ops[failed_t] % VF_NK, 6, 0);
                        vf_finish(&m, 1);
                    }
                }
            }
        }
        VF_REACH(ops[0] == (VF_FIRST_HI < nops - 1 ? VF_FIRST_HI : nops - 1) && vf_failed_inserts > 0, "last first-operation exercised, an allocation failure was injected");
    }
    VF_END();
}
#endif

/* ------------------------------------------------------------------ B4: build in every order, erase in every order */
#if defined(VF_B) && VF_B == 4
#ifndef VF_ORD_N
#define VF_ORD_N 4
#endif
#ifndef VF_INS_LO
#define VF_INS_LO 0
#endif
#ifndef VF_INS_HI
#define VF_INS_HI 1000000
#endif
/* insert VF_ORD_N keys in every order, erase them in every order (by key / by iterator alternating):
 * the map ends empty without clear, nothing may be left allocated */
void h_b_drain(void)
{
    int ins[6], era[6], ci, ce, k, j, nperm = 1, np = 0, reached = 0;
    for (k = 0; k < VF_ORD_N; k++) nperm *= VF_ORD_N;
    for (ci = 0; ci < nperm; ci++) {
        int c = ci, distinct = 1;
        for (k = 0; k < VF_ORD_N; k++) { ins[k] = c % VF_ORD_N; c /= VF_ORD_N; }
        for (k = 0; k < VF_ORD_N; k++) for (j = 0; j < k; j++) if (ins[j] == ins[k]) distinct = 0;
        if (!distinct) continue;
        np++;
        if (np - 1 < VF_INS_LO || np - 1 > VF_INS_HI) continue;
        for (ce = 0; ce < nperm; ce++) {
            cstl_map_t m;
            int t;
            c = ce; distinct = 1;
            for (k = 0; k < VF_ORD_N; k++) { era[k] = c % VF_ORD_N; c /= VF_ORD_N; }
            for (k = 0; k < VF_ORD_N; k++) for (j = 0; j < k; j++) if (era[j] == era[k]) distinct = 0;
            if (!distinct) continue;
            vf_reset(&m);
            for (t = 0; t < VF_ORD_N; t++) vf_op(&m, OP_INS, ins[t], t, 1);
            for (t = 0; t < VF_ORD_N; t++) vf_op(&m, (t + ce) & 1 ? OP_ERASE_IT : OP_ERASE, era[t], t, 1);
            MA(cstl_map_size(&m) == 0, "drain: the map is empty after erasing every key");
            vf_audit();
            reached = 1;
        }
    }
    VF_REACH(reached && vf_max_size == VF_ORD_N, "every order drained");
    VF_END();
}
#endif

#ifdef VF_NATIVE
struct vf_harness { const char * name; void (*fn)(void); };
struct vf_harness vf_harnesses[] = {
#if defined(VF_B) && VF_B == 1
    { "h_b_script", h_b_script },
#elif defined(VF_B) && VF_B == 2
    { "h_b_clear", h_b_clear },
#elif defined(VF_B) && VF_B == 3
    { "h_b_fail", h_b_fail },
#elif defined(VF_B) && VF_B == 4
    { "h_b_drain", h_b_drain },
#endif
    { NULL, NULL }
};
#endif
