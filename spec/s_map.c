/* Contracts for /repo/src/map.c (C08, C15 map part, C16 map part).
 *
 * B groups only: the real map code (map.c on top of rbtree.c and bintree.c) is executed on
 * CONCRETE operation scripts; a reference model (present / stored key pointer / stored value
 * pointer per key) is kept in plain arrays and compared with the map after EVERY state-changing
 * operation: size, find of every key, and a walk of the underlying red-black tree (parent links,
 * strict key order, root black, no red-red edge, equal black count on every root-to-NULL path,
 * every tree node is a live node the map allocated and carries the stored pointers).
 *
 * Allocation: map.c's calls of malloc/free are redirected (token-wise, `#define malloc vf_malloc`
 * around the three #include lines only) to the accounting allocator below.  It
 *   - checks the requested size, counts calls, fails the call number vf_fail_at (C16) without
 *     any nondeterminism,
 *   - records every block handed out, asserts that free() is only called on live blocks of the
 *     map (no double free, no foreign free), counts live blocks (leak audit),
 *   - VF_ARENA: hands out separate static node objects (all pointers concrete; a freed node is
 *     poisoned, its links point to a sentinel, and the poison is re-checked before reuse and in
 *     every audit, so that a write after free is seen; a read of the links after free leads to
 *     the sentinel, which is no node of the map and trips the checks);
 *     without VF_ARENA: forwards to the real malloc/free (CBMC's model with its
 *     deallocated-object checks and --memory-leak-check; libc + ASan in the native replay).
 *
 * Script enumeration (VF_ARENA groups).  Scripts are explored as a tree: a node of the tree is
 * the map state after a sequence of STATE-CHANGING operations (insert of an absent key, erase of
 * a present key); the state (all arena nodes, the map object, the model, the allocator) is saved
 * by value before a child is explored and restored afterwards, which is exact because every
 * pointer in it is the address of a static object.  At every node every operation of the
 * alphabet is executed: the state-changing ones lead to the children (full check after each),
 * the others (insert of a present key through either key object, erase of an absent key, find)
 * are checked for their result AND for leaving the complete saved state bit-for-bit untouched,
 * so a script containing them behaves as the script without them.  At every node the map is
 * finally cleared (callback audit, leak audit, reuse) and the state restored.
 *
 * Why a tree and not a flat list of scripts: CBMC executes this concrete code at 5-10 thousand steps
 * per second (one operation + full comparison is about 2000 steps), so the 50625 flat scripts of
 * length 4 are out of reach, while the tree shares every prefix (259 states for <= 3 changes, 1555
 * for <= 4).  Groups are further cut into slices (VF_FIRST_*, VF_SECOND_*, VF_ORDER_*, VF_FIRST)
 * of 100-170 thousand steps because the vacuity run emits the whole execution as a JSON trace.
 *
 * The container-of casts of bintree.c / rbtree.c are normalised in the scratch copy (vflib/prep.py).
 */
#include "vf.h"
#include <stdlib.h>

static void * vf_malloc(size_t n);
static void vf_free(void * p);
#define malloc vf_malloc
#define free   vf_free
#include "bintree.c"
#include "rbtree.c"
#include "map.c"
#undef malloc
#undef free

#define MA(c, msg) VF_ASSERT(c, msg)

#ifndef VF_NK
#define VF_NK 3                    /* number of distinct keys in use */
#endif
#define VF_NKMAX 6
static int K[VF_NKMAX]  = { 0, 1, 2, 3, 4, 5 };     /* key objects */
static int K2[VF_NKMAX] = { 0, 1, 2, 3, 4, 5 };     /* equal keys at other addresses */
static int P[VF_NKMAX]  = { 0, 1, 2, 3, 4, 5 };     /* probes for find / erase: never stored */
static int V[16];                                   /* value objects */
static int vf_junk;
static int vf_cmp_cookie, vf_clr_cookie;
static cstl_map_t vf_m;                             /* the map under test */

/* the compare callback dereferences pointers it gets from the library: all checks stay on */
static int vf_cmp(const void * a, const void * b, void * p)
{
    MA(p == &vf_cmp_cookie, "map: the compare callback receives the private pointer given to init");
    return vf_signmag(*(const int *)a > *(const int *)b, *(const int *)a < *(const int *)b);
}

/* From here on the harness dereferences only addresses it knows (static objects, or blocks it
 * recorded itself); library pointers are only COMPARED with known addresses.  CBMC's automatic
 * pointer checks are therefore switched off for the harness text (they stay on for bintree.c,
 * rbtree.c, map.c and vf_cmp above); this makes symbolic execution about four times faster. */
#ifndef VF_NATIVE
#pragma CPROVER check push
#pragma CPROVER check disable "pointer"
#pragma CPROVER check disable "pointer-primitive"
#pragma CPROVER check disable "signed-overflow"
#endif

/* ------------------------------------------------------------------ accounting allocator */
static int vf_fail_at = -1;        /* number of the malloc call that fails (-1: none) */
static int vf_mallocs, vf_frees, vf_failed;   /* calls so far in this script */
static int vf_live_n;              /* blocks handed out and not yet freed */
static int vf_last_blk = -1, vf_last_freed = -1;
#ifdef VF_ARENA
#define VF_NBLK (VF_NK + 1)        /* one more than can ever be live */
static struct cstl_map_node vf_s0, vf_s1, vf_s2, vf_s3, vf_s4, vf_s5, vf_s6;
static struct cstl_map_node * const vf_blk[VF_NKMAX + 1] = { &vf_s0, &vf_s1, &vf_s2, &vf_s3, &vf_s4, &vf_s5, &vf_s6 };
static int vf_used[VF_NBLK];
static struct cstl_bintree_node vf_poison;   /* sentinel: the links of a freed node point here */
static void vf_poison_blk(int k)
{
    vf_blk[k]->key = NULL; vf_blk[k]->val = NULL;
    vf_blk[k]->n.n.p = vf_blk[k]->n.n.l = vf_blk[k]->n.n.r = &vf_poison;
}
static int vf_is_poison(int k)
{
    return vf_blk[k]->key == NULL && vf_blk[k]->val == NULL && vf_blk[k]->n.n.p == &vf_poison &&
           vf_blk[k]->n.n.l == &vf_poison && vf_blk[k]->n.n.r == &vf_poison &&
           vf_poison.p == NULL && vf_poison.l == NULL && vf_poison.r == NULL;
}
#else
#define VF_NBLK 8                  /* allocations per scenario */
static struct cstl_map_node * vf_blk[VF_NBLK];
static int vf_nblk;
#endif
static int vf_live[VF_NBLK];

static void * vf_malloc(size_t n)
{
    int k;
    MA(n == sizeof(struct cstl_map_node), "map: every allocation is exactly one map node");
    if (vf_mallocs++ == vf_fail_at) {
        vf_failed++;
        return NULL;
    }
#ifdef VF_ARENA
    for (k = 0; k < VF_NBLK; k++) {
        if (!vf_live[k]) break;
    }
    MA(k < VF_NBLK, "harness: arena large enough");
    if (k >= VF_NBLK) return NULL;
    if (vf_used[k]) {
        MA(vf_is_poison(k), "map: a freed node is not written to after free()");
    }
    vf_used[k] = 1;
#else
    k = vf_nblk;
    MA(k < VF_NBLK, "harness: block table large enough");
    if (k >= VF_NBLK) return NULL;
    vf_blk[k] = malloc(n);
    VF_ASSUME(vf_blk[k] != NULL);
    vf_nblk++;
#endif
    vf_live[k] = 1;
    vf_live_n++;
    vf_last_blk = k;
    return vf_blk[k];
}

static void vf_free(void * p)
{
    int k;
    vf_frees++;
    MA(p != NULL, "map: free() is never called with NULL");
    for (k = 0; k < VF_NBLK; k++) {
        if (vf_live[k] && (void *)vf_blk[k] == p) break;
    }
    MA(k < VF_NBLK, "map: free() only on a live node allocated by the map (no double free, no foreign pointer)");
    if (k >= VF_NBLK) return;
    vf_live[k] = 0;
    vf_live_n--;
    vf_last_freed = k;
#ifdef VF_ARENA
    vf_poison_blk(k);
#else
    free(p);
#endif
}

/* ------------------------------------------------------------------ reference model */
static int vf_present[VF_NKMAX];
static const void * vf_skey[VF_NKMAX];      /* the key pointer stored by the first successful insert */
static void * vf_sval[VF_NKMAX];            /* the value pointer stored with it */
static int vf_nodeof[VF_NKMAX];             /* ghost: block that carries the entry */
static int vf_max_size;

static void vf_reset(void)
{
    int k;
    for (k = 0; k < VF_NK; k++) { vf_present[k] = 0; vf_skey[k] = NULL; vf_sval[k] = NULL; vf_nodeof[k] = -1; }
    MA(vf_live_n == 0, "harness: previous script left nothing allocated");
    vf_mallocs = vf_frees = vf_failed = 0;
    vf_last_blk = vf_last_freed = -1;
    vf_fail_at = -1;
#ifndef VF_ARENA
    for (k = 0; k < VF_NBLK; k++) { vf_live[k] = 0; vf_blk[k] = NULL; }
    vf_nblk = 0;
#endif
    cstl_map_init(&vf_m, vf_cmp, &vf_cmp_cookie);
}

/* which key object is this?  (compared, never dereferenced) */
static int vf_key_index(const void * key)
{
    int j;
    for (j = 0; j < VF_NK; j++) {
        if (key == (const void *)&K[j] || key == (const void *)&K2[j]) return j;
    }
    return -1;
}

/* which live block contains this tree node? */
static int vf_blk_of(const struct cstl_bintree_node * bn)
{
    int k;
    for (k = 0; k < VF_NBLK; k++) {
        if (vf_live[k] && &vf_blk[k]->n.n == bn) return k;
    }
    return -1;
}

/* number of black nodes from block k up to the root (bounded climb) */
static int vf_blacks_to_root(int k, int n)
{
    int cnt = 0, steps;
    for (steps = 0; steps <= n && k >= 0; steps++) {
        const struct cstl_map_node * x = vf_blk[k];
        if (x->n.c == CSTL_RBTREE_COLOR_B) cnt++;
        k = x->n.n.p == NULL ? -1 : vf_blk_of(x->n.n.p);
    }
    MA(k < 0, "map tree: parent chain reaches the root within size steps");
    return cnt;
}

/* descend along left links from block cur (validating them); -1 on a broken link */
static int vf_leftmost(int cur, int n)
{
    int steps;
    for (steps = 0; steps <= n && vf_blk[cur]->n.n.l != NULL; steps++) {
        const int c = vf_blk_of(vf_blk[cur]->n.n.l);
        MA(c >= 0, "map tree: every child is a live node allocated by the map");
        if (c < 0) return -1;
        MA(vf_blk[c]->n.n.p == &vf_blk[cur]->n.n, "map tree: parent link of a left child points back");
        cur = c;
    }
    MA(vf_blk[cur]->n.n.l == NULL, "map tree: left spine no longer than size");
    return cur;
}

/* in-order walk of vf_m.t.t (iterative, along links that are validated on the way) */
static void vf_check_tree(int n)
{
    const struct cstl_bintree_node * root = vf_m.t.t.root;
    int cur, cnt = 0, prevkey = -1, bh = -1, steps;
    MA(vf_m.t.t.size == (size_t)n, "map tree: size field equals the number of entries");
    if (n == 0) {
        MA(root == NULL, "map tree: empty map has no root");
        return;
    }
    MA(root != NULL, "map tree: non-empty map has a root");
    if (root == NULL) return;
    cur = vf_blk_of(root);
    MA(cur >= 0, "map tree: the root is a live node allocated by the map");
    if (cur < 0) return;
    MA(vf_blk[cur]->n.n.p == NULL, "map tree: root has no parent");
    MA(vf_blk[cur]->n.c == CSTL_RBTREE_COLOR_B, "map tree: root is black");
    cur = vf_leftmost(cur, n);
    while (cur >= 0 && cnt <= n) {
        const struct cstl_map_node * x = vf_blk[cur];
        int kv, lc = -1, rc = -1;
        cnt++;
        /* the entry */
        kv = vf_key_index(x->key);
        MA(kv >= 0 && vf_present[kv], "map tree: node key is a key of the model");
        if (kv < 0) return;
        MA(vf_nodeof[kv] == cur && x->key == vf_skey[kv] && x->val == vf_sval[kv], "map tree: node holds the stored key and value pointers of its entry");
        MA(kv > prevkey, "map tree: keys strictly ascending in order (one entry per key)");
        prevkey = kv;
        /* links and colours */
        MA(x->n.c == CSTL_RBTREE_COLOR_R || x->n.c == CSTL_RBTREE_COLOR_B, "map tree: colour is red or black");
        if (x->n.n.l != NULL) {
            lc = vf_blk_of(x->n.n.l);
            MA(lc >= 0, "map tree: every child is a live node allocated by the map");
            if (lc < 0) return;
            MA(vf_blk[lc]->n.n.p == &x->n.n, "map tree: parent link of a left child points back");
            MA(!(x->n.c == CSTL_RBTREE_COLOR_R && vf_blk[lc]->n.c == CSTL_RBTREE_COLOR_R), "map tree: no red node has a red child");
        }
        if (x->n.n.r != NULL) {
            rc = vf_blk_of(x->n.n.r);
            MA(rc >= 0, "map tree: every child is a live node allocated by the map");
            if (rc < 0) return;
            MA(vf_blk[rc]->n.n.p == &x->n.n, "map tree: parent link of a right child points back");
            MA(!(x->n.c == CSTL_RBTREE_COLOR_R && vf_blk[rc]->n.c == CSTL_RBTREE_COLOR_R), "map tree: no red node has a red child");
        }
        if (lc < 0 || rc < 0) {
            const int b = vf_blacks_to_root(cur, n);
            MA(bh < 0 || b == bh, "map tree: equal number of black nodes on every root-to-NULL path");
            bh = b;
        }
        /* successor */
        if (rc >= 0) {
            cur = vf_leftmost(rc, n);
        } else {
            int c = cur, up = -1;
            for (steps = 0; steps <= n; steps++) {
                const struct cstl_bintree_node * pp = vf_blk[c]->n.n.p;
                if (pp == NULL) { up = -1; break; }
                up = vf_blk_of(pp);
                MA(up >= 0, "map tree: every parent is a live node allocated by the map");
                if (up < 0) return;
                MA(vf_blk[up]->n.n.l == &vf_blk[c]->n.n || vf_blk[up]->n.n.r == &vf_blk[c]->n.n, "map tree: a node is a child of its parent");
                if (vf_blk[up]->n.n.l == &vf_blk[c]->n.n) break;
                c = up; up = -1;
            }
            MA(steps <= n, "map tree: climb ends within size steps");
            cur = up;
        }
    }
    MA(cur < 0 && cnt == n, "map tree: the walk visits exactly size nodes");
}

static void vf_check_find(int i, const void * probe)
{
    static cstl_map_iterator_t it;
    it._ = &vf_junk; it.key = &vf_junk; it.val = &vf_junk;
    cstl_map_find(&vf_m, probe, &it);
    if (vf_present[i]) {
        MA(!cstl_map_iterator_eq(&it, cstl_map_iterator_end(&vf_m)), "find: a present key is found");
        MA(it.key == vf_skey[i] && it.val == vf_sval[i], "find: yields the stored key and value pointers");
        MA(it._ == (void *)vf_blk[vf_nodeof[i]], "find: the iterator refers to the node of the entry");
    } else {
        MA(cstl_map_iterator_eq(&it, cstl_map_iterator_end(&vf_m)), "find: an absent key yields the end iterator");
        MA(it.key == NULL && it.val == NULL, "find: the end iterator carries no key or value");
    }
}

static int vf_count(void)
{
    int i, n = 0;
    for (i = 0; i < VF_NK; i++) n += vf_present[i];
    return n;
}

static void vf_check(void)
{
    const int n = vf_count();
    int i;
    if (n > vf_max_size) vf_max_size = n;
    MA(cstl_map_size(&vf_m) == (size_t)n, "map: size equals the number of keys inserted and not erased");
    MA(vf_live_n == n, "map: exactly one allocated node per entry");
    MA(vf_m.cmp.f == vf_cmp && vf_m.cmp.p == (void *)&vf_cmp_cookie && vf_m.t.t.cmp.priv == (void *)&vf_m &&
       vf_m.t.off == offsetof(struct cstl_map_node, n) && vf_m.t.t.off == offsetof(struct cstl_map_node, n.n),
       "map: the configuration fields of the map object are as set by init");
    for (i = 0; i < VF_NK; i++) {
        vf_check_find(i, &P[i]);
    }
    vf_check_tree(n);
}

/* Scenario boundary.  CBMC remembers one nondeterministically chosen dead stack object in
 * __CPROVER_dead_object; the candidate set grows with every returned call and makes each pointer check
 * slower and slower (measured: 3x on 43 scenarios).  It is emptied here, which is sound at this point only:
 * the boundary directly follows a full vf_check(), which has shown that every pointer reachable from the map
 * (map object fields, node links, keys, values) is the address of a static object, so no pointer to a dead
 * local can be used afterwards.  Within a scenario the tracking is untouched. */
static void vf_boundary(void)
{
#ifndef VF_NATIVE
    __CPROVER_dead_object = NULL;
#endif
}

/* ------------------------------------------------------------------ operations with their postconditions */
enum { OP_INS = 0, OP_INS2 = 1, OP_ERASE = 2, OP_ERASE_IT = 3, OP_FIND = 4, OP_KINDS = 5 };

/* does this operation change the abstract state? */
static int vf_changing(int kind, int i)
{
    return ((kind == OP_INS || kind == OP_INS2) && !vf_present[i]) || ((kind == OP_ERASE || kind == OP_ERASE_IT) && vf_present[i]);
}

/* one operation, its result checked against the model, the model updated; `check`: full comparison afterwards */
static void vf_op(int kind, int i, int vi, int use_it, int check)
{
    static cstl_map_iterator_t it;
    int r;
    const int m0 = vf_mallocs, f0 = vf_frees;
    it._ = &vf_junk; it.key = &vf_junk; it.val = &vf_junk;
    if (kind == OP_INS || kind == OP_INS2) {
        const void * key = kind == OP_INS ? (const void *)&K[i] : (const void *)&K2[i];
        void * val = &V[vi];
        const int fails = !vf_present[i] && vf_mallocs == vf_fail_at;
        r = cstl_map_insert(&vf_m, key, val, use_it ? &it : NULL);
        MA(vf_frees == f0, "insert: releases nothing");
        if (vf_present[i]) {
            MA(r == 1, "insert: an existing key returns 1");
            MA(vf_mallocs == m0, "insert: an existing key allocates nothing");
            if (use_it) {
                MA(it.key == vf_skey[i] && it.val == vf_sval[i], "insert: existing key: the iterator carries the stored (untouched) key and value pointers");
                MA(it._ == (void *)vf_blk[vf_nodeof[i]], "insert: existing key: the iterator refers to the existing entry");
            }
        } else if (fails) {
            MA(r == -1, "insert: allocation failure returns -1");
            MA(vf_mallocs == m0 + 1, "insert: one allocation attempt");
            if (use_it) {
                MA(cstl_map_iterator_eq(&it, cstl_map_iterator_end(&vf_m)), "insert: allocation failure yields the end iterator");
                MA(it.key == NULL && it.val == NULL, "insert: allocation failure: the iterator carries no key or value");
            }
        } else {
            MA(r == 0, "insert: a new key returns 0");
            MA(vf_mallocs == m0 + 1 && vf_last_blk >= 0, "insert: a new key allocates exactly one node");
            if (r == 0 && vf_last_blk >= 0) {
                vf_present[i] = 1; vf_skey[i] = key; vf_sval[i] = val; vf_nodeof[i] = vf_last_blk;
                if (use_it) {
                    MA(it.key == key && it.val == val, "insert: new key: the iterator carries the given key and value pointers");
                    MA(it._ == (void *)vf_blk[vf_last_blk], "insert: new key: the iterator refers to the new entry");
                }
            }
        }
    } else if (kind == OP_ERASE) {
        r = cstl_map_erase(&vf_m, &P[i], use_it ? &it : NULL);
        MA(vf_mallocs == m0, "erase: allocates nothing");
        if (vf_present[i]) {
            MA(r == 0, "erase: a present key returns 0");
            MA(vf_frees == f0 + 1 && vf_last_freed == vf_nodeof[i], "erase: releases exactly the node of the entry");
            if (use_it) {
                MA(it.key == vf_skey[i] && it.val == vf_sval[i], "erase: reports the stored key and value pointers of the removed entry");
                MA(cstl_map_iterator_eq(&it, cstl_map_iterator_end(&vf_m)), "erase: the reported iterator compares equal to end");
            }
            vf_present[i] = 0; vf_nodeof[i] = -1;
        } else {
            MA(r == -1, "erase: an absent key returns -1");
            MA(vf_frees == f0, "erase: an absent key releases nothing");
            if (use_it) {
                MA(cstl_map_iterator_eq(&it, cstl_map_iterator_end(&vf_m)), "erase: an absent key yields the end iterator");
                MA(it.key == NULL && it.val == NULL, "erase: absent key: the iterator carries no key or value");
            }
        }
    } else if (kind == OP_ERASE_IT) {
        static cstl_map_iterator_t it2;
        MA(vf_present[i], "harness: erase by iterator only of a present key");
        if (!vf_present[i]) return;
        cstl_map_find(&vf_m, &K2[i], &it);
        MA(!cstl_map_iterator_eq(&it, cstl_map_iterator_end(&vf_m)), "find: a present key is found");
        MA(it.key == vf_skey[i] && it.val == vf_sval[i], "find: yields the stored key and value pointers");
        MA(it._ == (void *)vf_blk[vf_nodeof[i]], "find: the iterator refers to the node of the entry");
        /* hand the iterator back with the address known to the harness (asserted equal above) */
        it2.key = it.key; it2.val = it.val; it2._ = vf_blk[vf_nodeof[i]];
        cstl_map_erase_iterator(&vf_m, &it2);
        MA(vf_mallocs == m0, "erase by iterator: allocates nothing");
        MA(vf_frees == f0 + 1 && vf_last_freed == vf_nodeof[i], "erase by iterator: releases exactly the node of the entry");
        vf_present[i] = 0; vf_nodeof[i] = -1;
    } else {
        vf_check_find(i, &K2[i]);
        MA(vf_mallocs == m0 && vf_frees == f0, "find: allocates and releases nothing");
    }
    if (check) {
        vf_check();
    }
}

/* ------------------------------------------------------------------ clear */
static int vf_clr_seen[VF_NKMAX], vf_clr_n;
static void vf_clr(void * e, void * p)
{
    cstl_map_iterator_t * it = e;
    int kv;
    MA(p == &vf_clr_cookie, "clear: the callback receives the private pointer given to clear");
    MA(it->_ == NULL, "clear: the callback gets a detached iterator");
    kv = vf_key_index(it->key);
    MA(kv >= 0 && vf_present[kv], "clear: the callback gets an entry of the map");
    if (kv < 0) return;
    MA(it->key == vf_skey[kv] && it->val == vf_sval[kv], "clear: the callback gets the stored key and value pointers of the entry");
    MA(!vf_clr_seen[kv], "clear: each entry is handed over at most once");
    MA(vf_live[vf_nodeof[kv]], "clear: the node of the entry is still allocated when the callback runs");
    vf_clr_seen[kv] = 1;
    vf_clr_n++;
    it->key = NULL; it->val = NULL;      /* the callback owns the iterator it is given */
}

static void vf_audit(void)
{
    MA(vf_live_n == 0, "map: everything the map allocated has been released");
    MA(vf_frees + vf_failed == vf_mallocs, "map: one free per successful allocation");
#ifdef VF_ARENA
    {
        int k;
        for (k = 0; k < VF_NBLK; k++) {
            MA(!vf_live[k], "map: no node left allocated");
            if (vf_used[k]) MA(vf_is_poison(k), "map: a freed node is not written to after free()");
        }
    }
#endif
}

/* clear (with or without callback), compare with the model, show the map is usable, release everything */
static void vf_finish(int with_cb)
{
    int i;
    const int n = vf_count();
    const int f0 = vf_frees, m0 = vf_mallocs;
    for (i = 0; i < VF_NK; i++) vf_clr_seen[i] = 0;
    vf_clr_n = 0;
    cstl_map_clear(&vf_m, with_cb ? vf_clr : NULL, &vf_clr_cookie);
    if (with_cb) {
        MA(vf_clr_n == n, "clear: the callback runs exactly once per entry");
        for (i = 0; i < VF_NK; i++) MA(vf_clr_seen[i] == vf_present[i], "clear: every entry (and nothing else) was handed over");
    }
    MA(vf_frees == f0 + n && vf_mallocs == m0, "clear: releases exactly one node per entry, allocates nothing");
    for (i = 0; i < VF_NK; i++) { vf_present[i] = 0; vf_nodeof[i] = -1; }
    MA(cstl_map_size(&vf_m) == 0 && vf_m.t.t.root == NULL, "clear: the map is empty");
    vf_check();
    vf_audit();
    /* still usable: insert again (through the other key object), clear without callback */
    vf_op(OP_INS2, 1, 10, 1, 1);
    cstl_map_clear(&vf_m, NULL, NULL);
    vf_present[1] = 0; vf_nodeof[1] = -1;
    vf_check();
    vf_audit();
}

/* ------------------------------------------------------------------ saved states (arena only) */
#ifdef VF_ARENA
/* Saved states live in plain global arrays indexed [depth][...] and are accessed by constant index only
 * (never through a pointer: CBMC expands every field of the pointed-to object on each dereference). */
#define VF_MAXDEPTH 7
static struct cstl_map_node vf_sv_blk[VF_MAXDEPTH + 1][VF_NBLK];
static cstl_map_t vf_sv_m[VF_MAXDEPTH + 1];
static int vf_sv_live[VF_MAXDEPTH + 1][VF_NBLK], vf_sv_used[VF_MAXDEPTH + 1][VF_NBLK];
static int vf_sv_present[VF_MAXDEPTH + 1][VF_NKMAX], vf_sv_nodeof[VF_MAXDEPTH + 1][VF_NKMAX];
static const void * vf_sv_skey[VF_MAXDEPTH + 1][VF_NKMAX];
static void * vf_sv_sval[VF_MAXDEPTH + 1][VF_NKMAX];
static int vf_sv_mallocs[VF_MAXDEPTH + 1], vf_sv_frees[VF_MAXDEPTH + 1], vf_sv_failed[VF_MAXDEPTH + 1], vf_sv_live_n[VF_MAXDEPTH + 1],
           vf_sv_last_blk[VF_MAXDEPTH + 1], vf_sv_last_freed[VF_MAXDEPTH + 1];

static void vf_save(int d)
{
    int k;
    for (k = 0; k < VF_NBLK; k++) { vf_sv_blk[d][k] = *vf_blk[k]; vf_sv_live[d][k] = vf_live[k]; vf_sv_used[d][k] = vf_used[k]; }
    for (k = 0; k < VF_NK; k++) { vf_sv_present[d][k] = vf_present[k]; vf_sv_nodeof[d][k] = vf_nodeof[k]; vf_sv_skey[d][k] = vf_skey[k]; vf_sv_sval[d][k] = vf_sval[k]; }
    vf_sv_m[d] = vf_m;
    vf_sv_mallocs[d] = vf_mallocs; vf_sv_frees[d] = vf_frees; vf_sv_failed[d] = vf_failed; vf_sv_live_n[d] = vf_live_n;
    vf_sv_last_blk[d] = vf_last_blk; vf_sv_last_freed[d] = vf_last_freed;
}
static void vf_restore(int d)
{
    int k;
    for (k = 0; k < VF_NBLK; k++) { *vf_blk[k] = vf_sv_blk[d][k]; vf_live[k] = vf_sv_live[d][k]; vf_used[k] = vf_sv_used[d][k]; }
    for (k = 0; k < VF_NK; k++) { vf_present[k] = vf_sv_present[d][k]; vf_nodeof[k] = vf_sv_nodeof[d][k]; vf_skey[k] = vf_sv_skey[d][k]; vf_sval[k] = vf_sv_sval[d][k]; }
    vf_m = vf_sv_m[d];
    vf_mallocs = vf_sv_mallocs[d]; vf_frees = vf_sv_frees[d]; vf_failed = vf_sv_failed[d]; vf_live_n = vf_sv_live_n[d];
    vf_last_blk = vf_sv_last_blk[d]; vf_last_freed = vf_sv_last_freed[d];
}
/* the concrete state (every arena node that was ever used, the map object, the allocation flags, the model)
 * equals the saved one; the call counters are compared by the caller */
static int vf_same_state(int d)
{
    int k, same = 1;
    for (k = 0; k < VF_NBLK; k++) {
        same = same && vf_sv_live[d][k] == vf_live[k] && vf_sv_used[d][k] == vf_used[k];
        if (vf_used[k]) {
            same = same && vf_sv_blk[d][k].key == vf_blk[k]->key && vf_sv_blk[d][k].val == vf_blk[k]->val && vf_sv_blk[d][k].n.c == vf_blk[k]->n.c &&
                   vf_sv_blk[d][k].n.n.p == vf_blk[k]->n.n.p && vf_sv_blk[d][k].n.n.l == vf_blk[k]->n.n.l && vf_sv_blk[d][k].n.n.r == vf_blk[k]->n.n.r;
        }
    }
    for (k = 0; k < VF_NK; k++) {
        same = same && vf_sv_present[d][k] == vf_present[k] && vf_sv_nodeof[d][k] == vf_nodeof[k] && vf_sv_skey[d][k] == vf_skey[k] && vf_sv_sval[d][k] == vf_sval[k];
    }
    same = same && vf_sv_m[d].t.t.root == vf_m.t.t.root && vf_sv_m[d].t.t.size == vf_m.t.t.size && vf_sv_m[d].t.t.off == vf_m.t.t.off &&
           vf_sv_m[d].t.t.cmp.func == vf_m.t.t.cmp.func && vf_sv_m[d].t.t.cmp.priv == vf_m.t.t.cmp.priv && vf_sv_m[d].t.off == vf_m.t.off &&
           vf_sv_m[d].cmp.f == vf_m.cmp.f && vf_sv_m[d].cmp.p == vf_m.cmp.p && vf_sv_live_n[d] == vf_live_n;
    return same;
}

#ifndef VF_LEN
#define VF_LEN 3
#endif
#define VF_NOPS (OP_KINDS * VF_NK)
#ifndef VF_FIRST_LO
#define VF_FIRST_LO 0
#endif
#ifndef VF_FIRST_HI
#define VF_FIRST_HI (VF_NOPS - 1)
#endif
#ifndef VF_SECOND_LO
#define VF_SECOND_LO 0
#endif
#ifndef VF_SECOND_HI
#define VF_SECOND_HI (VF_NOPS - 1)
#endif
static int vf_nodes, vf_deepest, vf_noops, vf_failures;

/* operation code = kind * VF_NK + key.  The node at `depth` is the current state. */
static void vf_dfs(int depth, int last_depth, int do_noops, int do_fail, int do_finish)
{
    int code;
    vf_nodes++;
    vf_boundary();
    VF_SCEN(depth > 0);
    if (depth > vf_deepest) vf_deepest = depth;
    /* (reach goal inside the walk: its witness ends at the first deepest node, which keeps the canary trace short) */
    VF_REACH(depth == last_depth && vf_max_size == (last_depth < VF_NK ? last_depth : VF_NK) && (vf_noops > 0 || vf_failures > 0),
             "deepest state of the script tree reached, fullest map seen, non-changing operations / allocation failures exercised");
    vf_save(depth);
    if (do_finish) {
        vf_finish(1);
        vf_restore(depth);
    }
    if (depth >= VF_LEN) {
        return;
    }
    for (code = 0; code < VF_NOPS; code++) {
        const int kind = code / VF_NK, i = code % VF_NK;
        if (!vf_changing(kind, i)) {
            int use_it;
            if (kind == OP_ERASE_IT || !do_noops) continue;    /* no iterator to an absent key */
            /* result as specified, and the complete state stays as it was */
            for (use_it = 1; use_it >= (kind == OP_FIND ? 1 : 0); use_it--) {
                vf_op(kind, i, depth, use_it, 0);
                MA(vf_same_state(depth), "insert of a present key / erase of an absent key / find leave the map, every node and the allocator exactly as they were");
                MA(vf_mallocs == vf_sv_mallocs[depth] && vf_frees == vf_sv_frees[depth], "insert of a present key / erase of an absent key / find neither allocate nor release");
                vf_noops++;
            }
            continue;
        }
        if (do_fail && (kind == OP_INS || kind == OP_INS2) &&
            !(depth == 0 && (code < VF_FIRST_LO || code > VF_FIRST_HI || VF_SECOND_LO != 0)) &&      /* (slices do not repeat */
            !(depth == 1 && (code < VF_SECOND_LO || code > VF_SECOND_HI))) {                        /*  each other's tests) */
            /* C16: the allocation of this insert fails */
            vf_fail_at = vf_mallocs;
            vf_op(kind, i, depth, 1, 1);
            MA(vf_failed == vf_sv_failed[depth] + 1 && vf_mallocs == vf_sv_mallocs[depth] + 1 && vf_frees == vf_sv_frees[depth], "failed insert: exactly one (failed) allocation attempt, nothing released");
            MA(vf_same_state(depth), "failed insert: the map, every node and the allocator are exactly as they were");
            vf_fail_at = vf_mallocs;
            vf_op(kind, i, depth, 0, 0);
            MA(vf_failed == vf_sv_failed[depth] + 2, "failed insert (no iterator requested): the allocation failed");
            MA(vf_same_state(depth), "failed insert (no iterator requested): the map, every node and the allocator are exactly as they were");
            /* the map stays usable: the same insert goes through now, then everything is released */
            vf_fail_at = -1;
            vf_op(kind, i, depth, 1, 1);
            MA(vf_present[i], "failed insert: the same insert succeeds afterwards");
            vf_op((depth & 1) ? OP_ERASE : OP_ERASE_IT, i, depth, 1, 1);
            vf_finish(1);
            vf_failures++;
            vf_restore(depth);
        }
        if (depth + 1 > last_depth) continue;
        if (depth == 0 && (code < VF_FIRST_LO || code > VF_FIRST_HI)) continue;
        if (depth == 1 && (code < VF_SECOND_LO || code > VF_SECOND_HI)) continue;
        vf_op(kind, i, depth, 1, 1);
        vf_dfs(depth + 1, last_depth, do_noops, do_fail, do_finish);
        vf_restore(depth);
    }
}

#if defined(VF_B) && VF_B == 1
/* C08: every script with at most VF_LEN state-changing operations (see the head of this file) */
void h_b_script(void)
{
    vf_reset();
    vf_check();
    vf_dfs(0, VF_LEN, 1, 0, 1);
    vf_restore(0);
    vf_finish(0);
    VF_END();
}
#endif

#if defined(VF_B) && VF_B == 3
/* C16: at every state reached by at most VF_LEN - 1 state-changing operations, every insert of an absent key
 * is run with its allocation failing */
void h_b_fail(void)
{
    vf_reset();
    vf_check();
    vf_dfs(0, VF_LEN - 1, 0, 1, 0);
    vf_restore(0);
    vf_finish(1);
    VF_END();
}
#endif

#if defined(VF_B) && VF_B == 4
#ifndef VF_ORDER_LO
#define VF_ORDER_LO 0
#endif
#ifndef VF_ORDER_HI
#define VF_ORDER_HI 1000000
#endif
/* insert VF_NK keys in every order whose number (in the enumeration below) is in [VF_ORDER_LO, VF_ORDER_HI], then erase
 * them in every order (by key and by iterator alternating): the map ends empty without clear, nothing may be left allocated */
static int vf_drained;
static void vf_drain(int depth)
{
    int i, any = 0;
    vf_boundary();
    vf_save(depth);
    for (i = 0; i < VF_NK; i++) {
        if (!vf_present[i]) continue;
        any = 1;
        vf_op(((depth + i) & 1) ? OP_ERASE_IT : OP_ERASE, i, depth, 1, 1);
        vf_drain(depth + 1);
        vf_restore(depth);
    }
    if (!any) {
        MA(cstl_map_size(&vf_m) == 0 && vf_m.t.t.root == NULL, "drain: the map is empty after erasing every key");
        vf_audit();
        VF_REACH(vf_max_size == VF_NK, "a full map drained to empty");
        VF_SCEN(1);
        vf_drained++;
    }
}
void h_b_drain(void)
{
    int ins[VF_NKMAX], code, ncodes = 1, k, j, np = 0;
    for (k = 0; k < VF_NK; k++) ncodes *= VF_NK;
    for (code = 0; code < ncodes; code++) {
        int c = code, distinct = 1;
        for (k = 0; k < VF_NK; k++) { ins[k] = c % VF_NK; c /= VF_NK; }
        for (k = 0; k < VF_NK; k++) for (j = 0; j < k; j++) if (ins[j] == ins[k]) distinct = 0;
        if (!distinct) continue;
        np++;
        if (np - 1 < VF_ORDER_LO || np - 1 > VF_ORDER_HI) continue;
        vf_reset();
        for (k = 0; k < VF_NK; k++) vf_op((k & 1) ? OP_INS2 : OP_INS, ins[k], k, 1, 1);
        vf_drain(0);
        vf_finish(1);               /* the state is the full map again: clear it */
        vf_boundary();
    }
    VF_END();
}
#endif
#endif /* VF_ARENA */

/* ------------------------------------------------------------------ B2: clear on maps from every insertion order */
#if defined(VF_B) && VF_B == 2
#ifndef VF_PASS
#define VF_PASS 0
#endif
#ifndef VF_FIRST
#define VF_FIRST (-1)              /* restrict to sequences starting with this key (the empty sequence goes with key 0) */
#endif
/* every sequence of 0..VF_NK distinct keys out of VF_NK, inserted in that order (every other insert without
 * iterator, key objects alternating); then clear with the recording callback (VF_PASS 0) or without callback
 * (VF_PASS 1), audit, reuse.  Runs linearly, so it also works on the real malloc/free. */
static int vf_orders;
void h_b_clear(void)
{
    int seq[VF_NKMAX], len;
    for (len = VF_NK; len >= 0; len--) {        /* longest first: the reach goal is met by the first scenario */
        int code, ncodes = 1, k, j;
        for (k = 0; k < len; k++) ncodes *= VF_NK;
        for (code = 0; code < ncodes; code++) {
            int c = code, distinct = 1, t;
            for (k = 0; k < len; k++) { seq[k] = c % VF_NK; c /= VF_NK; }
            for (k = 0; k < len; k++) for (j = 0; j < k; j++) if (seq[j] == seq[k]) distinct = 0;
            if (!distinct) continue;
            if (VF_FIRST >= 0 && (len > 0 ? seq[0] : 0) != VF_FIRST) continue;
            vf_reset();
            for (t = 0; t < len; t++) {
                /* the full comparison follows the last insert: every proper prefix is a sequence of its own */
                vf_op(((seq[t] + t) & 1) ? OP_INS2 : OP_INS, seq[t], t, !(t & 1), t == len - 1);
            }
            vf_finish(VF_PASS == 0);
            vf_boundary();
            VF_REACH(len == VF_NK && vf_max_size == VF_NK, "largest map cleared");
            VF_SCEN(len > 1);
            vf_orders++;
        }
    }
    VF_END();
}
#endif

#ifndef VF_NATIVE
#pragma CPROVER check pop
#endif

#ifdef VF_NATIVE
struct vf_harness { const char * name; void (*fn)(void); };
struct vf_harness vf_harnesses[] = {
#if defined(VF_B) && VF_B == 1
    { "h_b_script", h_b_script },
#elif defined(VF_B) && VF_B == 2
    { "h_b_clear", h_b_clear },
#elif defined(VF_B) && VF_B == 3
    { "h_b_fail", h_b_fail },
#elif defined(VF_B) && VF_B == 4
    { "h_b_drain", h_b_drain },
#endif
    { NULL, NULL }
};
#endif
