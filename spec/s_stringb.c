/* Bounded reference-string checks for /repo/src/_string.c (C10): every edit is mirrored on a
 * plain character array and the string is compared with it (size, at, str, terminator) after
 * every operation.  -DVF_S_WIDE selects the wchar_t instantiation.  Aborting calls are covered
 * by the proved groups (string.*); here only calls inside the documented domain are made.
 */
#define VF_REALLOC_FULLCOPY
#include "vf.h"
#include <stdlib.h>
#include <string.h>
#include <wchar.h>
#ifndef VF_NATIVE
/* reference models of the C library functions the string code and this harness use (CBMC has no
 * body for some of them); plain loops over NUL-terminated arrays */
#define VF_LIBC(T, LEN, CHR, STR, CMP)                                                        \
size_t LEN(const T * s) { size_t n = 0; while (s[n] != 0) n++; return n; }                     \
T * CHR(const T * s, T c) { for (;; s++) { if (*s == c) return (T *)s; if (*s == 0) return NULL; } } \
int CMP(const T * a, const T * b) { for (;; a++, b++) { if (*a != *b) return *a < *b ? -1 : 1; if (*a == 0) return 0; } } \
T * STR(const T * h, const T * n) { size_t i; for (;; h++) { for (i = 0; n[i] != 0 && h[i] == n[i]; i++) { } if (n[i] == 0) return (T *)h; if (*h == 0) return NULL; } }
#define strlen vf_strlen
#define strchr vf_strchr
#define strstr vf_strstr
#define strcmp vf_strcmp
#define wcslen vf_wcslen
#define wcschr vf_wcschr
#define wcsstr vf_wcsstr
#define wcscmp vf_wcscmp
VF_LIBC(char, vf_strlen, vf_strchr_i, vf_strstr, vf_strcmp)
static char * vf_strchr(const char * s, int c) { return vf_strchr_i(s, (char)c); }
VF_LIBC(wchar_t, vf_wcslen, vf_wcschr, vf_wcsstr, vf_wcscmp)
#endif
#include "memory.c"
#include "array.c"
#include "vector.c"
#include "string.c"

#ifdef VF_S_WIDE
typedef wchar_t vf_ch;
typedef struct cstl_wstring vf_str;
#define SF(n) cstl_wstring_##n
#define LIBLEN wcslen
#define LIBCHR wcschr
#define LIBSTR wcsstr
#define LIBCMP wcscmp
#define CH(c) (L##c)
#else
typedef char vf_ch;
typedef struct cstl_string vf_str;
#define SF(n) cstl_string_##n
#define LIBLEN strlen
#define LIBCHR strchr
#define LIBSTR strstr
#define LIBCMP strcmp
#define CH(c) (c)
#endif

#define VF_MAXS 31
static vf_ch vf_ref[VF_MAXS + 1];
static size_t vf_rn;

static void vf_check(vf_str * s)
{
    size_t k;
    const vf_ch * p = SF(str)(s);
    VF_ASSERT(SF(size)(s) == vf_rn, "string: size equals the reference length");
    VF_ASSERT(p[vf_rn] == 0, "string: str() is NUL-terminated right after size characters");
    for (k = 0; k < vf_rn; k++) {
        VF_ASSERT(p[k] == vf_ref[k], "string: characters equal the reference string");
        VF_ASSERT(*SF(at)(s, k) == vf_ref[k], "string: at() agrees with the reference string");
    }
}
static void vf_ref_insert(size_t pos, const vf_ch * src, size_t n)
{
    size_t k;
    for (k = vf_rn; k > pos; k--) vf_ref[k - 1 + n] = vf_ref[k - 1];
    for (k = 0; k < n; k++) vf_ref[pos + k] = src[k];
    vf_rn += n; vf_ref[vf_rn] = 0;
}
static void vf_ref_erase(size_t pos, size_t n)
{
    size_t k;
    if (n > vf_rn - pos) n = vf_rn - pos;
    for (k = pos; k + n < vf_rn; k++) vf_ref[k] = vf_ref[k + n];
    vf_rn -= n; vf_ref[vf_rn] = 0;
}

static const vf_ch vf_words[4][4] = { { 0 }, { CH('a'), 0 }, { CH('a'), CH('b'), 0 }, { CH('b'), CH('a'), CH('b'), 0 } };
static const size_t vf_counts[5] = { 0, 1, 2, (size_t)-2, (size_t)-1 };

void h_b_edit(void)
{
    int w, v; size_t pos; int c;
#ifndef VF_W
#define VF_W 4
#endif
    for (w = 0; w < VF_W; w++) {
        for (v = 0; v < VF_W; v++) {
            const size_t wl = LIBLEN(vf_words[w]), vl = LIBLEN(vf_words[v]);
            for (pos = 0; pos <= wl; pos++) {
                vf_str s, t, sub;
                VF_SCEN(wl > 0 && vl > 0);
                SF(init)(&s); SF(init)(&t); SF(init)(&sub);
                vf_rn = 0; vf_ref[0] = 0;
                vf_check(&s);
                SF(set_str)(&s, vf_words[w]);
                vf_ref_insert(0, vf_words[w], wl);
                vf_check(&s);
                /* insert another string object, a C string prefix, repeated characters */
                SF(set_str)(&t, vf_words[v]);
                SF(insert)(&s, pos, &t);
                vf_ref_insert(pos, vf_words[v], vl);
                vf_check(&s);
                if (v == 1) {
                    /* a source string whose valid characters include a NUL (grown by resize):
                     * all of its size() characters are inserted, not just the part before the NUL */
                    vf_ch withnul[3] = { CH('a'), 0, 0 };
                    SF(resize)(&t, 2);
                    SF(insert)(&s, pos, &t);
                    vf_ref_insert(pos, withnul, 2);
                    vf_check(&s);
                    SF(erase)(&s, pos, 2); vf_ref_erase(pos, 2);
                    vf_check(&s);
                    SF(set_str)(&t, vf_words[v]);
                }
                SF(insert_str_n)(&s, pos, vf_words[3], 2);
                vf_ref_insert(pos, vf_words[3], 2);
                vf_check(&s);
                SF(insert_ch)(&s, pos, 2, CH('c'));
                { vf_ch cc[2] = { CH('c'), CH('c') }; vf_ref_insert(pos, cc, 2); }
                vf_check(&s);
                SF(append)(&s, &t); vf_ref_insert(vf_rn, vf_words[v], vl);
                vf_check(&s);
                /* searches agree with the C library on the same characters */
                if (vf_rn > 0) {
                    const vf_ch * f;
                    f = LIBCHR(vf_ref, CH('b'));
                    VF_ASSERT(SF(find_ch)(&s, CH('b'), 0) == (f ? (ssize_t)(f - vf_ref) : -1), "find_ch agrees with the C library");
                    f = LIBSTR(vf_ref, vf_words[2]);
                    VF_ASSERT(SF(find_str)(&s, vf_words[2], 0) == (f ? (ssize_t)(f - vf_ref) : -1), "find_str agrees with the C library");
                    VF_ASSERT((SF(compare_str)(&s, vf_words[2]) > 0) == (LIBCMP(vf_ref, vf_words[2]) > 0) &&
                              (SF(compare_str)(&s, vf_words[2]) == 0) == (LIBCMP(vf_ref, vf_words[2]) == 0), "compare agrees with the C library");
                }
                /* substr and erase with counts reaching to, and far past, the end */
                for (c = 0; c < 5; c++) {
                    if (pos < vf_rn) {
                        size_t n = vf_counts[c], k;
                        if (n > vf_rn - pos) n = vf_rn - pos;
                        SF(substr)(&s, pos, vf_counts[c], &sub);
                        VF_ASSERT(SF(size)(&sub) == n && SF(str)(&sub)[n] == 0, "substr: truncated to the characters available, NUL-terminated");
                        for (k = 0; k < n; k++) VF_ASSERT(SF(str)(&sub)[k] == vf_ref[pos + k], "substr: characters equal the reference substring");
                    }
                }
                for (c = 4; c >= 0; c--) {
                    if (pos < vf_rn) {
                        SF(erase)(&s, pos, vf_counts[c]);
                        vf_ref_erase(pos, vf_counts[c]);
                        vf_check(&s);
                        SF(append_str)(&s, vf_words[2]); vf_ref_insert(vf_rn, vf_words[2], 2);
                        vf_check(&s);
                    }
                }
                /* resize down and up (new characters are NUL), swap, clear */
                if (vf_rn >= 1) { SF(resize)(&s, vf_rn - 1); vf_rn--; vf_ref[vf_rn] = 0; vf_check(&s); }
                SF(resize)(&s, vf_rn + 2); vf_ref[vf_rn] = 0; vf_ref[vf_rn + 1] = 0; vf_rn += 2; vf_ref[vf_rn] = 0;
                vf_check(&s);
                SF(swap)(&s, &t);
                VF_ASSERT(SF(size)(&s) == vl && SF(size)(&t) == vf_rn, "swap exchanges the contents");
                SF(swap)(&s, &t);
                vf_check(&s);
                SF(clear)(&s); vf_rn = 0; vf_ref[0] = 0;
                vf_check(&s);
                SF(clear)(&t); SF(clear)(&sub);
            }
        }
        VF_REACH(w == VF_W - 1, "longest base word reached");
    }
    VF_END();
}

#ifdef VF_NATIVE
struct vf_harness { const char * name; void (*fn)(void); };
struct vf_harness vf_harnesses[] = { { "h_b_edit", h_b_edit }, { NULL, NULL } };
#endif
