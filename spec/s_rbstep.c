/* Step contracts (S) for the loop-free pointer primitives of bintree.c / rbtree.c (C01, C02):
 *   __cstl_bintree_rotate, cstl_rbtree_fix_insertion, cstl_rbtree_fix_deletion.
 *
 * Each step is called on a symbolic NEIGHBOURHOOD: a handful of distinct node objects whose
 * presence, orientation (left/right mirror) and position under the parent are enumerated
 * exhaustively (concrete pointers keep CBMC's formula small; colours that do not shape the case
 * analysis, subtree contents and everything above stay nondeterministic), surrounded by "atoms" = opaque subtrees represented by one node with a
 * ghost black height and arbitrary children that the step must not touch.  The contract is the
 * CLRS case analysis stated on abstract quantities: in-order item sequence, black height of every
 * path through the neighbourhood, red-red pairs, parent back-links, frame.  It is asserted around
 * the real function (explicit objects: a symbolic pointer cannot alias a fresh DFCC object), for
 * ALL neighbourhoods at once, so the step is verified for trees of any size.  What is not
 * machine-checked is the induction that iterates steps (DESIGN.md section 5).
 */
#include "vf.h"
#include <stdlib.h>
#include "bintree.c"
#include "rbtree.c"

#define NN 14
static struct cstl_rbtree_node vf_n[NN];
static _Bool vf_atom[NN];            /* node i stands for an opaque subtree                   */
static int vf_abh[NN];               /* ... of this black height (root colour included)       */
#define BNP(i)   (&vf_n[i].n)
#define IDX(bn)  ((int)(((char *)(bn) - (char *)&vf_n[0].n) / (long)sizeof(vf_n[0])))
#define COL(bn)  (vf_n[IDX(bn)].c)
#define RED      CSTL_RBTREE_COLOR_R
#define BLK      CSTL_RBTREE_COLOR_B

static __cstl_bintree_child_func_t * vf_l, * vf_r;     /* orientation of this run */

/* black height of the subtree at n (NULL counts 1); -1 if two paths disagree */
static int vf_bh(const struct cstl_bintree_node * n, int depth)
{
    int a, b;
    if (n == NULL) return 1;
    if (depth > 6) return -1;
    if (vf_atom[IDX(n)]) return vf_abh[IDX(n)];
    a = vf_bh(n->l, depth + 1);
    b = vf_bh(n->r, depth + 1);
    if (a < 0 || b < 0 || a != b) return -1;
    return a + (COL(n) == BLK ? 1 : 0);
}
/* number of red nodes with a red child inside the neighbourhood (atoms are leaves here) */
static int vf_rr(const struct cstl_bintree_node * n, int depth)
{
    int c = 0;
    if (n == NULL || depth > 6 || vf_atom[IDX(n)]) return 0;
    if (COL(n) == RED) {
        if (n->l != NULL && COL(n->l) == RED) c++;
        if (n->r != NULL && COL(n->r) == RED) c++;
    }
    return c + vf_rr(n->l, depth + 1) + vf_rr(n->r, depth + 1);
}
/* in-order item sequence (node indices; atoms are single items) */
static int vf_seq[2 * NN], vf_nseq;
static void vf_inorder(const struct cstl_bintree_node * n, int depth)
{
    if (n == NULL || depth > 6) return;
    if (!vf_atom[IDX(n)]) vf_inorder(n->l, depth + 1);
    if (vf_nseq < 2 * NN) vf_seq[vf_nseq++] = IDX(n);
    if (!vf_atom[IDX(n)]) vf_inorder(n->r, depth + 1);
}
/* every child's parent link points back (atoms included as children, not descended into) */
static _Bool vf_links(const struct cstl_bintree_node * n, const struct cstl_bintree_node * parent, int depth)
{
    if (n == NULL) return 1;
    if (depth > 6) return 0;
    if (n->p != parent) return 0;
    if (vf_atom[IDX(n)]) return 1;
    return vf_links(n->l, n, depth + 1) && vf_links(n->r, n, depth + 1);
}

static struct cstl_bintree vf_bt;
static struct cstl_bintree_node * vf_top;       /* root of the neighbourhood               */
static struct cstl_bintree_node ** vf_slot;     /* the slot that holds it (bt.root or a child slot of the node above) */
static struct cstl_rbtree_node vf_above;        /* the node above the neighbourhood, if any */
static struct cstl_rbtree_node vf_snap[NN];

/* node i becomes an atom: black root, ghost black height h, arbitrary children it keeps */
#define ATOM_OR_NULL(i, h, parent)  ((h) == 1 ? vf_mk_atom_h1(i, parent) : vf_mk_atom_req(i, h, parent))
/* black height 1 is what a missing subtree has: an atom of height 1 is impossible (a black root
 * alone already gives 2), so height 1 means "absent" */
static struct cstl_bintree_node * vf_mk_atom_h1(int i, struct cstl_bintree_node * parent) { (void)i; (void)parent; return NULL; }
/* sentinels: what lies below an opaque subtree's root, beside and above the neighbourhood.  (Symbolic
 * pointers here cost minutes and gigabytes per scenario; distinct fixed objects that must come back
 * untouched serve the same purpose for the frame check.) */
static struct cstl_rbtree_node vf_below[2], vf_beside, vf_far;
static struct cstl_bintree_node * vf_mk_atom_req(int i, int h, struct cstl_bintree_node * parent)
{
    vf_atom[i] = 1; vf_abh[i] = h;
    vf_n[i].c = BLK; vf_n[i].n.l = &vf_below[0].n; vf_n[i].n.r = &vf_below[1].n; vf_n[i].n.p = parent;
    return BNP(i);
}

/* hang the neighbourhood rooted at top under the root slot, or under a node above (either side) */
static void vf_place(struct cstl_bintree_node * top, int pcase)
{
    struct cstl_bintree_node * other;
    vf_top = top;
    vf_bt.size = nondet_size_t();
    if (pcase == 0) {
        vf_bt.root = top; top->p = NULL; vf_slot = &vf_bt.root;
    } else {
        struct cstl_bintree_node * junk = &vf_far.n;
        other = &vf_beside.n;
        vf_bt.root = junk;                      /* somewhere further up: must stay untouched   */
        vf_above.n.p = junk; vf_above.c = nondet_bool() ? RED : BLK;
        top->p = &vf_above.n;
        if (pcase == 1) { vf_above.n.l = top; vf_above.n.r = other; vf_slot = &vf_above.n.l; }
        else            { vf_above.n.r = top; vf_above.n.l = other; vf_slot = &vf_above.n.r; }
    }
}
static void vf_snapshot(void) { int i; for (i = 0; i < NN; i++) vf_snap[i] = vf_n[i]; }
static void vf_atoms_untouched(void)
{
    int i;
    for (i = 0; i < NN; i++) {
        if (vf_atom[i]) {
            VF_ASSERT(vf_n[i].n.l == vf_snap[i].n.l && vf_n[i].n.r == vf_snap[i].n.r && vf_n[i].c == vf_snap[i].c,
                      "step: opaque subtrees are not read into or written (only their parent link may move)");
        }
    }
}
static void vf_orient(int mirror)
{
    int i;
    if (!mirror) { vf_l = __cstl_bintree_left; vf_r = __cstl_bintree_right; }
    else         { vf_l = __cstl_bintree_right; vf_r = __cstl_bintree_left; }
    for (i = 0; i < NN; i++) { vf_atom[i] = 0; vf_abh[i] = 0; }
}
#define L(n) (*vf_l(n))
#define R(n) (*vf_r(n))

#if defined(VF_S) && VF_S == 1
/* ---- __cstl_bintree_rotate(bt, x, l, r): y = r(x) moves into x's place, x becomes l(y),
 *      l(y) becomes r(x); in-order sequence a x b y c unchanged ------------------------------ */
static void vf_rotate_case(int mirror, int pcase, int hasA, int hasB, int hasC)
{
    struct cstl_bintree_node * x = BNP(0), * y = BNP(1);
    int before[2 * NN], nb, k; size_t size0; struct cstl_bintree_node * root0;
    struct cstl_rbtree_node above0;
    vf_orient(mirror);
    L(x) = hasA ? vf_mk_atom_req(2, 2, x) : NULL;
    R(x) = y; y->p = x;
    L(y) = hasB ? vf_mk_atom_req(3, 2, y) : NULL;
    R(y) = hasC ? vf_mk_atom_req(4, 2, y) : NULL;
    vf_n[0].c = nondet_bool() ? RED : BLK; vf_n[1].c = nondet_bool() ? RED : BLK;
    vf_place(x, pcase);
    vf_nseq = 0; vf_inorder(vf_top, 0); nb = vf_nseq; for (k = 0; k < nb; k++) before[k] = vf_seq[k];
    vf_snapshot(); size0 = vf_bt.size; root0 = vf_bt.root; above0 = vf_above;
    __cstl_bintree_rotate(&vf_bt, x, vf_l, vf_r);
    VF_ASSERT(*vf_slot == y && y->p == vf_snap[0].n.p, "rotate: y takes x's place under x's former parent (or as root)");
    VF_ASSERT(L(y) == x && x->p == y, "rotate: x becomes y's child on the rotation side");
    VF_ASSERT(vf_links(y, vf_snap[0].n.p, 0), "rotate: every parent link in the neighbourhood points back");
    vf_nseq = 0; vf_inorder(*vf_slot, 0);
    VF_ASSERT(vf_nseq == nb, "rotate: same items");
    for (k = 0; k < nb && k < vf_nseq; k++) VF_ASSERT(vf_seq[k] == before[k], "rotate: the in-order sequence is unchanged");
    vf_atoms_untouched();
    VF_ASSERT(vf_n[0].c == vf_snap[0].c && vf_n[1].c == vf_snap[1].c && vf_bt.size == size0, "rotate: colours and size untouched");
    VF_ASSERT(vf_slot == &vf_bt.root || (vf_bt.root == root0 && vf_above.n.p == above0.n.p && vf_above.c == above0.c &&
              (vf_slot == &vf_above.n.l ? vf_above.n.r == above0.n.r : vf_above.n.l == above0.n.l)), "rotate: nothing above the parent slot is written");
}
void h_s_rotate(void)
{
    int m, pc, a, b, c;
    for (m = 0; m < 2; m++) for (pc = 0; pc < 3; pc++) for (a = 0; a < 2; a++) for (b = 0; b < 2; b++) for (c = 0; c < 2; c++) {
        VF_SCEN(1);
        vf_rotate_case(m, pc, a, b, c);
    }
    VF_REACH(1, "all 48 neighbourhood shapes visited");
    VF_END();
}
#endif

#if defined(VF_S) && VF_S == 2
/* ---- cstl_rbtree_fix_insertion(t, x, l, r): x and its parent p are red, p is the l-child of the
 *      black grandparent g; u = r(g) is the uncle -------------------------------------------- */
static void vf_fi_case(int mirror, int pcase, int x_outer, int ucase, int h)
{
    struct cstl_bintree_node * g = BNP(0), * p = BNP(1), * x = BNP(2), * u = NULL, * res;
    int before[2 * NN], nb, k, bh0;
    vf_orient(mirror);
    vf_n[0].c = BLK; vf_n[1].c = RED; vf_n[2].c = RED;
    L(g) = p; p->p = g;
    /* x is the outer (l) or inner (r) child of p; its sibling and its own children are subtrees of height h */
    if (x_outer) { L(p) = x; R(p) = ATOM_OR_NULL(5, h, p); } else { R(p) = x; L(p) = ATOM_OR_NULL(5, h, p); }
    x->p = p;
    L(x) = ATOM_OR_NULL(3, h, x); R(x) = ATOM_OR_NULL(4, h, x);
    /* the uncle: absent (only possible for h == 1), red over two subtrees of height h, or a black subtree of height h */
    if (ucase == 0) { R(g) = NULL; }
    else if (ucase == 1) { u = BNP(6); vf_n[6].c = RED; R(g) = u; u->p = g; L(u) = ATOM_OR_NULL(7, h, u); R(u) = ATOM_OR_NULL(8, h, u); }
    else { u = vf_mk_atom_req(6, h, g); R(g) = u; }
    vf_place(g, pcase);
    bh0 = vf_bh(vf_top, 0);
    VF_ASSERT(bh0 == h + 1 && vf_rr(vf_top, 0) == 1, "fix_insertion pre-state: equal black counts, the only red-red pair is (parent, x)");
    vf_nseq = 0; vf_inorder(vf_top, 0); nb = vf_nseq; for (k = 0; k < nb; k++) before[k] = vf_seq[k];
    vf_snapshot();
    res = cstl_rbtree_fix_insertion(&vf_bt, x, vf_l, vf_r);
    {
        struct cstl_bintree_node * top = *vf_slot;
        VF_ASSERT(top != NULL && vf_links(top, vf_snap[0].n.p, 0), "fix_insertion: every child's parent link points back");
        VF_ASSERT(vf_bh(top, 0) == bh0, "fix_insertion: the black count of every path through the neighbourhood is unchanged");
        vf_nseq = 0; vf_inorder(top, 0);
        VF_ASSERT(vf_nseq == nb, "fix_insertion: same items");
        for (k = 0; k < nb && k < vf_nseq; k++) VF_ASSERT(vf_seq[k] == before[k], "fix_insertion: the in-order sequence is unchanged");
        vf_atoms_untouched();
        if (ucase == 1) {
            VF_ASSERT(res == g && top == g && COL(g) == RED && COL(p) == BLK && COL(u) == BLK, "fix_insertion (red uncle): parent and uncle black, grandparent red, continue from the grandparent");
            VF_ASSERT(vf_rr(top, 0) == 0, "fix_insertion (red uncle): no red-red pair left inside the neighbourhood");
        } else {
            VF_ASSERT(COL(top) == BLK && vf_rr(top, 0) == 0, "fix_insertion (black uncle): new subtree root is black, no red-red pair left");
            VF_ASSERT(res->p != NULL && COL(res) == RED && COL(res->p) == BLK, "fix_insertion (black uncle): the returned node's parent is black, so the caller's loop stops");
            VF_ASSERT(top == (x_outer ? p : x), "fix_insertion (black uncle): the middle node of the three becomes the subtree root");
        }
    }
}
void h_s_fix_insertion(void)
{
    int m, pc, xo, uc, h, n = 0;
    for (m = 0; m < 2; m++) for (pc = 0; pc < 3; pc++) for (xo = 0; xo < 2; xo++) for (uc = 0; uc < 3; uc++) for (h = 1; h <= 3; h++) {
        if ((uc == 0 && h != 1) || (uc == 2 && h < 2)) continue;      /* shapes that cannot satisfy the black-count precondition */
        VF_SCEN(1); n++;
        vf_fi_case(m, pc, xo, uc, h);
    }
    VF_REACH(n == 72, "all neighbourhood shapes visited");
    VF_END();
}
#endif

#if defined(VF_S) && VF_S == 3
/* ---- cstl_rbtree_fix_deletion(t, x, l, r): the paths through x (the l-child of its parent, or
 *      the stack stand-in for a removed leaf) have one black node too few -------------------- */
static void vf_nephew(int idx, int a1, int a2, int red, int h, struct cstl_bintree_node * parent, int left)
{
    struct cstl_bintree_node * c;
    if (!red) { c = ATOM_OR_NULL(idx, h, parent); }
    else { vf_n[idx].c = RED; c = BNP(idx); c->p = parent; L(c) = ATOM_OR_NULL(a1, h, c); R(c) = ATOM_OR_NULL(a2, h, c); }
    if (left) L(parent) = c; else R(parent) = c;
}
static void vf_fd_case(int mirror, int pcase, int stand, int h, int pc_black, int wcase, int lc, int rc)
{
    struct cstl_bintree_node * par = BNP(0), * x, * w = BNP(2), * res;
    static struct cstl_rbtree_node standin;
    int before[2 * NN], nb, k;
    const cstl_rbtree_color_t pc0 = pc_black ? BLK : RED;
    vf_orient(mirror);
    vf_n[0].c = pc0;
    if (stand) { x = &standin.n; standin.c = BLK; standin.n.p = par; standin.n.l = standin.n.r = NULL; L(par) = NULL; }
    else { x = vf_mk_atom_req(1, h, par); L(par) = x; }
    R(par) = w; w->p = par;
    if (wcase == 0) {
        /* black sibling; each nephew: absent/black subtree of height h, or a red node over two such subtrees */
        vf_n[2].c = BLK;
        vf_nephew(3, 5, 6, lc, h, w, 1);
        vf_nephew(4, 7, 8, rc, h, w, 0);
    } else {
        /* red sibling over two black nodes; the near one's children have the shapes above */
        vf_n[2].c = RED;
        vf_n[3].c = BLK; L(w) = BNP(3); BNP(3)->p = w;
        vf_n[4].c = BLK; R(w) = BNP(4); BNP(4)->p = w;
        vf_nephew(5, 9, 10, lc, h, BNP(3), 1);
        vf_nephew(6, 11, 12, rc, h, BNP(3), 0);
        L(BNP(4)) = ATOM_OR_NULL(7, h, BNP(4)); R(BNP(4)) = ATOM_OR_NULL(8, h, BNP(4));
    }
    vf_place(par, pcase);
    VF_ASSERT(vf_bh(w, 0) == h + 1 && vf_rr(vf_top, 0) == 0, "fix_deletion pre-state: sibling side valid and one black node taller, no red-red pair");
    vf_nseq = 0; vf_inorder(vf_top, 0); nb = vf_nseq; for (k = 0; k < nb; k++) before[k] = vf_seq[k];
    vf_snapshot();
    res = cstl_rbtree_fix_deletion(&vf_bt, x, vf_l, vf_r);
    {
        struct cstl_bintree_node * top = *vf_slot;
        /* which way did it go: the recolour case leaves the structure alone and makes the sibling red */
        const _Bool recoloured = (wcase == 0) ? (lc == 0 && rc == 0) : (lc == 0 && rc == 0);
        VF_ASSERT(top != NULL && vf_links(top, vf_snap[0].n.p, 0), "fix_deletion: every child's parent link points back");
        vf_nseq = 0; vf_inorder(top, 0);
        VF_ASSERT(vf_nseq == nb, "fix_deletion: same items");
        for (k = 0; k < nb && k < vf_nseq; k++) VF_ASSERT(vf_seq[k] == before[k], "fix_deletion: the in-order sequence is unchanged");
        vf_atoms_untouched();
        if (!recoloured) {
            VF_ASSERT(res == vf_bt.root, "fix_deletion (rotation cases): tells the caller to stop (returns the root)");
            VF_ASSERT(vf_bh(top, 0) == h + 1 + (pc0 == BLK ? 1 : 0) && COL(top) == pc0 && vf_rr(top, 0) == 0,
                      "fix_deletion (rotation cases): every path has its black node back, subtree root keeps the parent's colour, no red-red pair");
        } else {
            VF_ASSERT(res == par && (stand ? L(par) == NULL : L(par) == x), "fix_deletion (recolour case): continues from x's parent");
            VF_ASSERT(R(par) != NULL && COL(R(par)) == RED && vf_bh(R(par), 0) == h && vf_rr(R(par), 0) == 0,
                      "fix_deletion (recolour case): the sibling is red, its side lost one black node so both sides agree, no red-red pair below it");
            VF_ASSERT(wcase == 0 ? (top == par && COL(par) == pc0) : (top == w && COL(w) == BLK && COL(par) == RED && L(w) == par),
                      "fix_deletion (recolour case): after a red sibling the old parent is red (the caller blackens it), otherwise its colour is unchanged");
        }
    }
}
void h_s_fix_deletion(void)
{
    int m, pc, st, h, pb, wc, lc, rc, n = 0;
    for (m = 0; m < 2; m++) for (pc = 0; pc < 3; pc++) for (st = 0; st < 2; st++) for (h = 1; h <= 3; h++)
    for (pb = 0; pb < 2; pb++) for (wc = 0; wc < 2; wc++) for (lc = 0; lc < 2; lc++) for (rc = 0; rc < 2; rc++) {
        if ((st && h != 1) || (!st && h < 2)) continue;       /* a removed leaf leaves height 1; a real black subtree has at least 2 */
        if (wc == 1 && !pb) continue;                          /* a red sibling has a black parent */
        VF_SCEN(1); n++;
        vf_fd_case(m, pc, st, h, pb, wc, lc, rc);
    }
    VF_REACH(n == 216, "all neighbourhood shapes visited");
    VF_END();
}
#endif

#if defined(VF_S) && VF_S == 4
/* ---- __cstl_bintree_erase(bt, bn): bn is unlinked; with two children its in-order successor y
 *      (the leftmost node of the right subtree, here 1..3 levels down) takes its place.  The
 *      in-order sequence loses exactly bn, every back-link is consistent, nothing outside the
 *      touched links is written, size - 1.  (No mirror: the code is not symmetric.) ------------ */
static void vf_erase_case(int pcase, int hasL, int rc, int hasYr, int hasRr, int hasMr)
{
    struct cstl_bintree_node * bn = BNP(0), * R_ = BNP(2), * y = BNP(4), * M = BNP(6), * succ, * x;
    const struct cstl_bintree_node * res;
    int before[2 * NN], nb, k, j; size_t size0; struct cstl_bintree_node * root0; struct cstl_rbtree_node above0;
    vf_orient(0);
    bn->l = hasL ? vf_mk_atom_req(1, 2, bn) : NULL;
    if (rc == 0) { bn->r = NULL; succ = NULL; }
    else if (!hasL) { bn->r = vf_mk_atom_req(2, 2, bn); succ = NULL; }      /* one child only: the right subtree is opaque */
    else {
        bn->r = R_; R_->p = bn;
        R_->r = hasRr ? vf_mk_atom_req(3, 2, R_) : NULL;
        if (rc == 1) { R_->l = NULL; succ = R_; }
        else if (rc == 2) { R_->l = y; y->p = R_; succ = y; }
        else { R_->l = M; M->p = R_; M->l = y; y->p = M; M->r = hasMr ? vf_mk_atom_req(7, 2, M) : NULL; succ = y; }
        if (rc >= 2) { y->l = NULL; y->r = hasYr ? vf_mk_atom_req(5, 2, y) : NULL; }
    }
    for (k = 0; k < NN; k++) vf_n[k].c = nondet_bool() ? RED : BLK;
    vf_place(bn, pcase);
    vf_nseq = 0; vf_inorder(vf_top, 0); nb = vf_nseq; for (k = 0; k < nb; k++) before[k] = vf_seq[k];
    vf_snapshot(); size0 = vf_bt.size; root0 = vf_bt.root; above0 = vf_above;
    __CPROVER_assume(size0 >= 1);
    res = __cstl_bintree_erase(&vf_bt, bn);
    VF_ASSERT(vf_bt.size == size0 - 1, "erase: size drops by one");
    VF_ASSERT(res == (succ != NULL ? succ : bn), "erase: reports the node whose position was given up (the successor's, when bn had two children)");
    x = *vf_slot;
    VF_ASSERT(x != bn, "erase: bn is no longer linked under its parent slot");
    VF_ASSERT(vf_links(x, vf_snap[0].n.p, 0), "erase: every parent link in the neighbourhood points back");
    vf_nseq = 0; vf_inorder(x, 0);
    VF_ASSERT(vf_nseq == nb - 1, "erase: exactly one item fewer");
    for (k = 0, j = 0; k < nb; k++) {
        if (before[k] == 0) continue;
        VF_ASSERT(j < vf_nseq && vf_seq[j] == before[k], "erase: the in-order sequence is the old one without bn");
        j++;
    }
    vf_atoms_untouched();
    VF_ASSERT(vf_slot == &vf_bt.root || (vf_bt.root == root0 && vf_above.n.p == above0.n.p && vf_above.c == above0.c &&
              (vf_slot == &vf_above.n.l ? vf_above.n.r == above0.n.r : vf_above.n.l == above0.n.l)), "erase: nothing above the parent slot is written");
    for (k = 0; k < NN; k++) VF_ASSERT(vf_n[k].c == vf_snap[k].c, "erase (bintree level): colours are not touched");
}
void h_s_erase(void)
{
    int pc, hl, rc, yr, rr, mr;
    for (pc = 0; pc < 3; pc++) for (hl = 0; hl < 2; hl++) for (rc = 0; rc < 4; rc++)
        for (yr = 0; yr < 2; yr++) for (rr = 0; rr < 2; rr++) for (mr = 0; mr < 2; mr++) {
            /* parameters that do not shape the case are fixed to 0 */
            if ((!hl || rc == 0) && (yr || rr || mr || rc > 1)) continue;
            if (hl && rc == 1 && (yr || mr)) continue;
            if (hl && rc == 2 && mr) continue;
            VF_SCEN(1);
            vf_erase_case(pc, hl, rc, yr, rr, mr);
        }
    VF_REACH(1, "all erase neighbourhood shapes visited");
    VF_END();
}
#endif

#if defined(VF_S) && VF_S == 5
/* ---- cstl_bintree_insert(bt, e, hint): the descent from the root (no hint) or from the hint node
 *      follows the comparison results (< 0 left, otherwise right: equal keys go right) down a path
 *      of 0..3 nodes to a free slot and links the new node there; nothing else is written, the
 *      in-order sequence gains exactly the new node next to the last path node, size + 1.  The
 *      subtrees hanging off the path are opaque, the comparison is a stub that answers as the
 *      chosen path prescribes (magnitudes 1..3, and 0 -- an equal key -- for every other right turn). ---------- */
#ifndef VF_INS_LO
#define VF_INS_LO 0
#define VF_INS_HI 3
#endif
static int vf_ins_dir[4];                 /* direction at path node k: 0 left, 1 right          */
static int vf_ins_len;
static _Bool vf_ins_bad;
static int vf_ins_cmp(const void * a, const void * b, void * p)
{
    const int k = IDX((const struct cstl_bintree_node *)b);
    static unsigned calls;
    const int m = 1 + (int)(calls % 3);           /* concrete magnitudes 1, 2, 3; every other right turn is an equal key */
    calls++;
    if (a != (const void *)BNP(9) || p != (void *)&vf_ins_bad || k < 0 || k >= vf_ins_len) {
        vf_ins_bad = 1;                    /* only (new node, path node) pairs are compared, with the tree's private pointer */
        return 0;
    }
    return vf_ins_dir[k] == 0 ? -m : ((calls & 1) ? m : 0);
}
cstl_compare_func_t * const vf_anchor_ins_cmp = vf_ins_cmp;
static void vf_insert_case(int pcase, int hinted, int len, int dirs, int atoms)
{
    struct cstl_bintree_node * bn = BNP(9), * last = NULL, * x;
    int before[2 * NN], nb, k, j, pos; size_t size0; struct cstl_bintree_node * root0; struct cstl_rbtree_node above0;
    vf_orient(0);
    vf_ins_len = len; vf_ins_bad = 0;
    for (k = 0; k < len; k++) {
        struct cstl_bintree_node * n = BNP(k);
        vf_ins_dir[k] = (dirs >> k) & 1;
        /* the child on the path is the next path node (or the free slot at the end), the other child an opaque subtree or nothing */
        if (vf_ins_dir[k] == 0) { n->l = k + 1 < len ? BNP(k + 1) : NULL; n->r = ((atoms >> k) & 1) ? vf_mk_atom_req(4 + k, 2, n) : NULL; }
        else                    { n->r = k + 1 < len ? BNP(k + 1) : NULL; n->l = ((atoms >> k) & 1) ? vf_mk_atom_req(4 + k, 2, n) : NULL; }
        if (k + 1 < len) BNP(k + 1)->p = n;
        last = n;
    }
    bn->p = &vf_far.n; bn->l = &vf_far.n; bn->r = &vf_far.n;      /* stale links of the new node */
    for (k = 0; k < NN; k++) vf_n[k].c = (k & 1) ? RED : BLK;
    if (len == 0) { vf_bt.root = NULL; vf_bt.size = nondet_size_t(); vf_slot = &vf_bt.root; vf_top = NULL; }
    else { vf_place(BNP(0), pcase); }
    vf_bt.off = 0; vf_bt.cmp.func = vf_ins_cmp; vf_bt.cmp.priv = &vf_ins_bad;
    vf_nseq = 0; vf_inorder(vf_top, 0); nb = vf_nseq; for (k = 0; k < nb; k++) before[k] = vf_seq[k];
    vf_snapshot(); size0 = vf_bt.size; root0 = vf_bt.root; above0 = vf_above;
    __CPROVER_assume(size0 < SIZE_MAX);
    cstl_bintree_insert(&vf_bt, bn, hinted ? (void *)BNP(0) : NULL);
    VF_ASSERT(!vf_ins_bad, "insert: only the new element is compared, against nodes on the descent path, with the tree's private pointer");
    VF_ASSERT(vf_bt.size == size0 + 1, "insert: size grows by one");
    VF_ASSERT(bn->l == NULL && bn->r == NULL, "insert: the new node is a leaf (stale links overwritten)");
    if (len == 0) {
        VF_ASSERT(vf_bt.root == bn && bn->p == NULL, "insert into an empty tree: the new node is the root");
        return;
    }
    VF_ASSERT(bn->p == last && (vf_ins_dir[len - 1] == 0 ? last->l == bn : last->r == bn), "insert: linked in the free slot at the end of the descent, both ways");
    x = *vf_slot;
    VF_ASSERT(x == BNP(0) && vf_links(x, vf_snap[0].n.p, 0), "insert: the top of the neighbourhood stays, every parent link points back");
    vf_nseq = 0; vf_inorder(x, 0);
    VF_ASSERT(vf_nseq == nb + 1, "insert: exactly one item more");
    /* the new node sits immediately before (left slot) or after (right slot) the last path node */
    for (pos = 0; pos < nb && before[pos] != len - 1; pos++) { }
    if (vf_ins_dir[len - 1] == 1) pos++;
    for (k = 0, j = 0; k < vf_nseq; k++) {
        if (k == pos) { VF_ASSERT(vf_seq[k] == 9, "insert: the new node takes its in-order place next to the last path node"); }
        else { VF_ASSERT(j < nb && vf_seq[k] == before[j], "insert: the in-order sequence of the other items is unchanged"); j++; }
    }
    vf_atoms_untouched();
    for (k = 0; k < len; k++) {
        VF_ASSERT(vf_n[k].n.p == vf_snap[k].n.p && (k == len - 1 || (vf_n[k].n.l == vf_snap[k].n.l && vf_n[k].n.r == vf_snap[k].n.r)) && vf_n[k].c == vf_snap[k].c,
                  "insert: the path nodes keep their links and colours (only the free slot of the last one is filled)");
    }
    VF_ASSERT(vf_slot == &vf_bt.root ? vf_bt.root == root0 : (vf_bt.root == root0 && vf_above.n.p == above0.n.p && vf_above.n.l == above0.n.l && vf_above.n.r == above0.n.r),
              "insert: the root pointer and everything above the neighbourhood are not written");
}
void h_s_insert(void)
{
    int pc, hinted, len, dirs, atoms;
    for (len = VF_INS_LO; len <= VF_INS_HI; len++) for (hinted = 0; hinted < 2; hinted++) for (pc = 0; pc < 3; pc++)
        for (dirs = 0; dirs < (1 << len); dirs++) for (atoms = 0; atoms < (1 << len); atoms++) {
            if (len == 0 && (hinted || pc)) continue;
            if (!hinted && pc != 0) continue;          /* without a hint the descent starts at the root slot */
            VF_SCEN(1);
            vf_insert_case(pc, hinted, len, dirs, atoms);
        }
    VF_REACH(1, "all insert neighbourhood shapes visited");
    VF_END();
}
#endif

#if defined(VF_S) && VF_S == 6
/* ---- swap of two tree objects: every field changes hands, in particular BOTH element offsets of a
 *      red-black tree (the binary tree's and the red-black layer's): a tree handle that kept its old
 *      colour offset would colour the wrong bytes on the next insert (seeded change C02-5). -------- */
#define BT_SWAPPED(x, y) ((x)->root == OLD((y)->root) && (x)->size == OLD((y)->size) && (x)->off == OLD((y)->off) && \
                          (x)->cmp.func == OLD((y)->cmp.func) && (x)->cmp.priv == OLD((y)->cmp.priv))
void cstl_bintree_swap(struct cstl_bintree * const a, struct cstl_bintree * const b)
REQUIRES(FRESH(a, sizeof(*a)) && FRESH(b, sizeof(*b)))
ASSIGNS(*a, *b)
ENSURES(BT_SWAPPED(a, b) && BT_SWAPPED(b, a))
;
static inline void cstl_rbtree_swap(struct cstl_rbtree * const a, struct cstl_rbtree * const b)
REQUIRES(FRESH(a, sizeof(*a)) && FRESH(b, sizeof(*b)))
ASSIGNS(*a, *b)
ENSURES(BT_SWAPPED(&a->t, &b->t) && BT_SWAPPED(&b->t, &a->t) && a->off == OLD(b->off) && b->off == OLD(a->off))
;
void h_s_bt_swap(void) { struct cstl_bintree * a, * b; cstl_bintree_swap(a, b); VF_END(); }
void h_s_rb_swap(void) { struct cstl_rbtree * a, * b; cstl_rbtree_swap(a, b); VF_END(); }
#endif
