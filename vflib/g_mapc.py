"""Per-key map contracts (C08, C16): map.c proved against assumed contracts of the tree functions."""
from .run import Group


def groups():
    S = 'spec/s_mapc.c'
    src = ['map.c']
    TREE = ['__cstl_rbtree_erase']     # cstl_bintree_find, cstl_rbtree_insert: specification stubs (s_mapc.c)
    G = []

    def g(name, props, harness, enforce, what, replace=TREE, **kw):
        kw.setdefault('replay', True)
        G.append(Group('mapc.' + name, props, 'P', S, harness, enforce=enforce, replace=replace, sources=src,
                       what=what + ' [every key, every stored pointer, every map size; tree functions replaced by their per-key contracts (assumed, see C01)]', **kw))
    g('insert', ['C08', 'C16'], 'h_insert', 'cstl_map_insert',
      'insert: existing key -> 1, stored key/value pointers untouched, iterator to the existing entry; new key -> 0 and the new entry, or -1 with nothing changed when the allocation fails; the entry of every other key stays')
    g('find', ['C08'], 'h_find', 'cstl_map_find', 'find: the stored pointers of the key, or the end iterator; nothing changes')
    g('erase', ['C08'], 'h_erase', 'cstl_map_erase',
      'erase by key: 0, the stored pointers of the removed entry, its node released exactly once; absent key -> -1 and the end iterator; the entry of every other key stays and is not released')
    g('erase_iterator', ['C08'], 'h_erase_iterator', 'cstl_map_erase_iterator', 'erase by iterator: exactly the referenced entry is unlinked and released')
    g('clear', ['C08', 'C15'], 'h_clear', 'cstl_map_clear', 'clear: every entry\'s stored key and value go to the callback exactly once (no node handle), every node is released, also without a callback; the tree\'s clear is a stub that hands each tracked entry to the element callback once', replace=[], replay=False)
    g('node_cmp', ['C08'], 'h_node_cmp', 'cstl_map_node_cmp', "the tree's element comparison passes the two keys and the user's private pointer to the user's function", replace=[])
    g('init', ['C08'], 'h_init', 'cstl_map_init', 'init: empty tree ordered by cstl_map_node_cmp with the map as private pointer, embedded-node offsets, user comparison stored', replace=[])
    return G
