"""Registry of obligation groups."""
from .run import Group


def hash_groups():
    S = 'spec/s_hash.c'
    L = 'spec/loops/hash.lc'
    src = [('hash.c', {'loops': L})]
    G = []

    def g(gid, props, harness, enforce, replace=(), what='', **kw):
        d = ['-DVF_G_' + gid.split('.', 1)[1]] + list(kw.pop('defines', []))
        kw.setdefault('replay', harness in ('h_foreach_walk', 'h_foreach_const', 'h_clear', 'h_set_capacity', 'h_resize'))
        G.append(Group(gid, props, kw.pop('kind', 'P'), S, harness, enforce=enforce, replace=replace,
                       sources=src, defines=d, what=what, **kw))
    g('hash.div', ['C17'], 'h_div', 'cstl_hash_div', what='cstl_hash_div(k,m) < m for all k, all m >= 1')
    g('hash.get_bucket_raw', ['C17', 'C03'], 'h_get_bucket_raw', '__cstl_hash_get_bucket',
      what='bucket selection with an arbitrary caller hash: result inside [0,count) of the array or abort',
      covers=['end', 'abort'])
    g('hash.rehash_n', ['C19', 'C03'], 'h_rehash_n', '__cstl_hash_rehash', replace=['cstl_clean_bucket'],
      what='sweep: <= n dirty buckets cleaned, progress >= n or completion, completion installs the pending geometry, sweep invariant',
      shards=8)
    g('hash.rehash', ['C19', 'C03'], 'h_rehash', 'cstl_hash_rehash', replace=['__cstl_hash_rehash'],
      what='forced completion of a pending rehash; no-op otherwise')
    g('hash.get_bucket', ['C19', 'C03', 'C17'], 'h_get_bucket', 'cstl_hash_get_bucket',
      replace=['__cstl_hash_get_bucket', 'cstl_clean_bucket', '__cstl_hash_rehash'],
      what='keyed access: <= 3 dirty buckets relocated, sweep advances or completes, one hash consultation when idle, bucket in range')
    g('hash.set_capacity', ['C16', 'C03'], 'h_set_capacity', '__cstl_hash_set_capacity',
      what='bucket array reallocation lands completely or changes nothing (allocation may fail)', shards=4)
    g('hash.set_capacity_init', ['C16'], 'h_set_capacity', '__cstl_hash_set_capacity',
      what='first allocation of the bucket array lands completely or changes nothing')
    g('hash.resize', ['C19', 'C16', 'C03'], 'h_resize', 'cstl_hash_resize',
      replace=['cstl_hash_rehash'],
      what='resize request in every table state incl. rehash pending: lands (effective geometry = request) or, on allocation failure, changes nothing',
      shards=8)
    g('hash.resize_init', ['C19', 'C16', 'C03'], 'h_resize', 'cstl_hash_resize',
      replace=['cstl_hash_rehash'],
      what='first resize of a freshly initialised table')
    g('hash.shrink', ['C16', 'C03'], 'h_shrink', 'cstl_hash_shrink_to_fit',
      replace=['cstl_hash_rehash'],
      what='shrink_to_fit keeps the effective geometry, array size follows or nothing changes', shards=4)
    g('hash.foreach_walk', ['C04'], 'h_foreach_walk', '__cstl_hash_foreach', replace=['cstl_hash_bucket_foreach'],
      what='bucket walk hands bucket k to the k-th chain walk for every bucket that can hold an element, stops at first non-zero')
    g('hash.foreach', ['C04'], 'h_foreach', 'cstl_hash_foreach', replace=['cstl_hash_rehash', '__cstl_hash_foreach'],
      what='foreach = forced completion + full walk')
    g('hash.foreach_const', ['C04'], 'h_foreach_const', 'cstl_hash_foreach_const', replace=['__cstl_hash_foreach'],
      what='foreach_const = full walk of the span, no mutation')
    g('hash.clear', ['C04'], 'h_clear', 'cstl_hash_clear', replace=['__cstl_hash_foreach'],
      what='clear walks the full span and leaves the table as freshly initialised')
    g('hash.clear_init', ['C04'], 'h_clear', 'cstl_hash_clear', replace=['cstl_hash_bucket_foreach'],
      what='clear of a freshly initialised table is a no-op')
    return G


def vector_groups():
    S = 'spec/s_vector.c'
    src = [('vector.c', {'loops': 'spec/loops/vector.lc'})]
    G = []
    quick_sizes = (1, 4, 12)
    all_sizes = (1, 2, 3, 4, 8, 12, 16, 64)
    for esz in all_sizes:
        tier = 'quick' if esz in quick_sizes else 'thorough'
        for fam in ('', 'empty'):
            d = ['-DVF_ESZ=%d' % esz] + (['-DVF_VEC_EMPTY'] if fam else [])
            sfx = '.e%d%s' % (esz, '.empty' if fam else '')

            def g(name, props, harness, enforce, what, **kw):
                G.append(Group('vector.' + name + sfx, props, 'P', S, harness, enforce=enforce, sources=src,
                               defines=d, what=what + ' [element size %d, %s]' % (esz, 'empty vector' if fam else 'vector with storage'),
                               tier=kw.pop('tier', tier), replay=True, **kw))
            g('set_capacity', ['C09', 'C16'], 'h_set_capacity', 'cstl_vector_set_capacity',
              'reallocation lands completely (live buffer of >= (cap+1)*size bytes in 128-bit arithmetic, bytes in range kept) or changes nothing',
              shards=1 if fam else 4)
            g('reserve', ['C09', 'C16'], 'h_reserve', 'cstl_vector_reserve',
              'reserve: never shrinks, quiet no-op when growth is impossible, wf kept', shards=1 if fam else 4)
            g('resize', ['C09', 'C16'], 'h_resize', 'cstl_vector_resize',
              'resize: size == request or abort; ctor once per entering element ascending, dtor once per leaving element descending',
              covers=['end', 'abort'], shards=1 if fam else 6)
            if not fam:
                g('shrink', ['C09', 'C16'], 'h_shrink', 'cstl_vector_shrink_to_fit',
                  'shrink_to_fit: cap == count or unchanged, wf kept', shards=4)
                g('at', ['C09'], 'h_at', 'cstl_vector_at_const',
                  'at: aborts iff i >= size, else address of element i inside the allocation', covers=['end', 'abort'])
                g('clear', ['C09', 'C15'], 'h_clear', 'cstl_vector_clear',
                  'clear: destructor once per element, storage freed, empty vector')
    return G


def all_groups():
    G = []
    G += hash_groups()
    G += vector_groups()
    return G
