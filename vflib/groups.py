"""Registry of obligation groups."""
from .run import Group


def hash_groups():
    S = 'spec/s_hash.c'
    L = 'spec/loops/hash.lc'
    src = [('hash.c', {'loops': L})]
    G = []

    def g(gid, props, harness, enforce, replace=(), what='', **kw):
        d = ['-DVF_G_' + gid.split('.', 1)[1]] + list(kw.pop('defines', []))
        kw.setdefault('replay', harness in ('h_foreach_walk', 'h_foreach_const', 'h_clear', 'h_set_capacity', 'h_resize'))
        G.append(Group(gid, props, kw.pop('kind', 'P'), S, harness, enforce=enforce, replace=replace,
                       sources=src, defines=d, what=what, **kw))
    g('hash.div', ['C17'], 'h_div', 'cstl_hash_div', what='cstl_hash_div(k,m) < m for all k, all m >= 1')
    g('hash.get_bucket_raw', ['C17', 'C03'], 'h_get_bucket_raw', '__cstl_hash_get_bucket',
      what='bucket selection with an arbitrary caller hash: result inside [0,count) of the array or abort',
      covers=['end', 'abort'])
    g('hash.rehash_n', ['C19', 'C03'], 'h_rehash_n', '__cstl_hash_rehash', replace=['cstl_clean_bucket'],
      what='sweep: <= n dirty buckets cleaned, progress >= n or completion, completion installs the pending geometry, sweep invariant')
    g('hash.rehash', ['C19', 'C03'], 'h_rehash', 'cstl_hash_rehash', replace=['__cstl_hash_rehash'],
      what='forced completion of a pending rehash; no-op otherwise')
    g('hash.get_bucket', ['C19', 'C03', 'C17'], 'h_get_bucket', 'cstl_hash_get_bucket',
      replace=['__cstl_hash_get_bucket', 'cstl_clean_bucket', '__cstl_hash_rehash'],
      what='keyed access: <= 3 dirty buckets relocated, sweep advances or completes, one hash consultation when idle, bucket in range')
    g('hash.set_capacity', ['C16', 'C03'], 'h_set_capacity', '__cstl_hash_set_capacity',
      what='bucket array reallocation lands completely or changes nothing (allocation may fail)')
    g('hash.set_capacity_init', ['C16'], 'h_set_capacity', '__cstl_hash_set_capacity',
      what='first allocation of the bucket array lands completely or changes nothing')
    g('hash.resize', ['C19', 'C16', 'C03'], 'h_resize', 'cstl_hash_resize',
      replace=['cstl_hash_rehash'],
      what='resize request in every table state incl. rehash pending: lands (effective geometry = request) or, on allocation failure, changes nothing')
    g('hash.resize_init', ['C19', 'C16', 'C03'], 'h_resize', 'cstl_hash_resize',
      replace=['cstl_hash_rehash'],
      what='first resize of a freshly initialised table')
    g('hash.shrink', ['C16', 'C03'], 'h_shrink', 'cstl_hash_shrink_to_fit',
      replace=['cstl_hash_rehash'],
      what='shrink_to_fit keeps the effective geometry, array size follows or nothing changes')
    g('hash.foreach_walk', ['C04'], 'h_foreach_walk', '__cstl_hash_foreach', replace=['cstl_hash_bucket_foreach'],
      what='bucket walk hands bucket k to the k-th chain walk for every bucket that can hold an element, stops at first non-zero')
    g('hash.foreach', ['C04'], 'h_foreach', 'cstl_hash_foreach', replace=['cstl_hash_rehash', '__cstl_hash_foreach'],
      what='foreach = forced completion + full walk')
    g('hash.foreach_const', ['C04'], 'h_foreach_const', 'cstl_hash_foreach_const', replace=['__cstl_hash_foreach'],
      what='foreach_const = full walk of the span, no mutation')
    g('hash.clear', ['C04'], 'h_clear', 'cstl_hash_clear', replace=['__cstl_hash_foreach'],
      what='clear walks the full span and leaves the table as freshly initialised')
    g('hash.clear_init', ['C04'], 'h_clear', 'cstl_hash_clear', replace=['cstl_hash_bucket_foreach'],
      what='clear of a freshly initialised table is a no-op')
    return G


def all_groups():
    G = []
    G += hash_groups()
    return G
