"""Registry of obligation groups."""
from .run import Group


def hash_groups():
    S = 'spec/s_hash.c'
    L = 'spec/loops/hash.lc'
    src = [('hash.c', {'loops': L})]
    G = []

    def g(gid, props, harness, enforce, replace=(), what='', **kw):
        d = ['-DVF_G_' + gid.split('.', 1)[1]] + list(kw.pop('defines', []))
        kw.setdefault('replay', harness in ('h_foreach_walk', 'h_foreach_const', 'h_clear', 'h_set_capacity', 'h_resize'))
        G.append(Group(gid, props, kw.pop('kind', 'P'), S, harness, enforce=enforce, replace=replace,
                       sources=src, defines=d, what=what, **kw))
    g('hash.div', ['C17'], 'h_div', 'cstl_hash_div', what='cstl_hash_div(k,m) < m for all k, all m >= 1')
    g('hash.mul', ['C17'], 'h_mul', 'cstl_hash_mul', what='cstl_hash_mul(k,m) < m for all k, all m >= 1 (IEEE binary32)',
      solver='kissat', timeout=1500)   # (cvc5: 3 min; minisat2: no result in 900 s; kissat: 14 s, and 13 min to refute seeded change C17-1)
    g('hash.load', ['C19'], 'h_load', 'cstl_hash_load', what='cstl_hash_load reports size / effective bucket count', solver='cvc5', timeout=300, cover_solver=True)
    g('hash.get_bucket_raw', ['C17', 'C03'], 'h_get_bucket_raw', '__cstl_hash_get_bucket',
      what='bucket selection with an arbitrary caller hash: result inside [0,count) of the array or abort',
      covers=['end', 'abort'])
    for n in (0, 1, 2, 3):      # (0: an empty dirty bucket still gets its stamp -- seeded change C03-5)
        G.append(Group('hash.clean_bucket.chain%d' % n, ['C19', 'C03', 'C17'], 'B', S, 'h_clean_bucket_b',
                       sources=['hash.c'], defines=['-DVF_G_clean_bucket_b', '-DVF_CHAIN=%d' % n], unwind=6, instances=1,
                       what='cstl_clean_bucket against its flat contract on a chain of %d nodes: stamp set, other stamps kept, frame = bucket array + the detached nodes, one hash consultation per relocated node' % n,
                       scope='chain of exactly %d nodes in the bucket; bucket array of any size' % n,
                       covers=['end'] + (['abort'] if n else [])))
    g('hash.rehash_n', ['C19', 'C03', 'C04'], 'h_rehash_n', '__cstl_hash_rehash', replace=['cstl_clean_bucket'],
      what='sweep: <= n dirty buckets cleaned, progress >= n or completion, completion installs the pending geometry, sweep invariant',
      shards=1, weight=2)
    g('hash.rehash', ['C19', 'C03', 'C04'], 'h_rehash', 'cstl_hash_rehash', replace=['__cstl_hash_rehash'],
      what='forced completion of a pending rehash; no-op otherwise')
    g('hash.get_bucket', ['C19', 'C03', 'C17'], 'h_get_bucket', 'cstl_hash_get_bucket',
      replace=['__cstl_hash_get_bucket', 'cstl_clean_bucket', '__cstl_hash_rehash'],
      what='keyed access: <= 3 dirty buckets relocated, sweep advances or completes, one hash consultation when idle, bucket in range',
      defines=['-DVF_BYTE_STAMPS'], shards=6, timeout=1500, solver='kissat')
    for nm, fn, txt in (('find_visit', 'cstl_hash_find_visit', 'one step of a lookup: an element is offered to the visit function exactly when its key matches (once, with the caller\'s private pointer); it becomes the result and stops the walk exactly when it matches and is accepted (or no visit function is given)'),
                        ('erase_visit', 'cstl_hash_erase_visit', 'one step of an erase: stops exactly at the object passed (pointer identity), otherwise the link cursor advances to the visited node\'s next field')):
        G.append(Group('hash.' + nm, ['C03'], 'P', S, 'h_' + nm, enforce=fn, sources=[('hash.c', {'loops': L, 'normalise': True})], defines=['-DVF_G_find_visit'], what=txt, unwind=3))
    G.append(Group('hash.swap', ['C03'], 'P', S, 'h_swap', enforce='cstl_hash_swap', sources=src, defines=['-DVF_G_swap'],
                   what='swap exchanges the two table objects completely (bucket array, both geometries, sweep position, stamp, count, offset) and writes nothing else, for any field values'))
    G.append(Group('hash.insert', ['C03'], 'P', S, 'h_insert', enforce='cstl_hash_insert', replace=['cstl_hash_get_bucket'],
                   sources=[('hash.c', {'loops': L, 'normalise': True})], defines=['-DVF_G_insert', '-DVF_BYTE_STAMPS'], timeout=2400, solver='kissat', tier='thorough', weight=2,
                   what='insert: the element heads the chain of the bucket the effective function selects for its key, key stored, counted; flat and sweep invariants kept (get_bucket replaced by its proved contract)'))
    g('hash.set_capacity', ['C16', 'C03'], 'h_set_capacity', '__cstl_hash_set_capacity',
      what='bucket array reallocation lands completely or changes nothing (allocation may fail)')
    g('hash.set_capacity_init', ['C16'], 'h_set_capacity', '__cstl_hash_set_capacity',
      what='first allocation of the bucket array lands completely or changes nothing')
    for case, txt in ((1, 'request fits the current capacity'), (2, 'request needs a bigger bucket array')):
        G.append(Group('hash.resize.case%d' % case, ['C19', 'C16', 'C03'], 'P', S, 'h_resize', enforce='cstl_hash_resize',
                       replace=['cstl_hash_rehash'], sources=src, defines=['-DVF_G_resize', '-DVF_RESIZE_CASE=%d' % case],
                       replay=True, timeout=900, weight=2,
                       what='resize request in every table state incl. rehash pending (%s; the two cases are exhaustive): lands (effective geometry = request) or, on allocation failure, changes nothing' % txt))
    g('hash.resize_init', ['C19', 'C16', 'C03'], 'h_resize', 'cstl_hash_resize',
      replace=['cstl_hash_rehash'],
      what='first resize of a freshly initialised table')
    g('hash.shrink', ['C16', 'C03'], 'h_shrink', 'cstl_hash_shrink_to_fit',
      replace=['cstl_hash_rehash'],
      what='shrink_to_fit keeps the effective geometry, array size follows or nothing changes')
    g('hash.foreach_walk', ['C04'], 'h_foreach_walk', '__cstl_hash_foreach', replace=['cstl_hash_bucket_foreach'],
      what='bucket walk hands bucket k to the k-th chain walk for every bucket that can hold an element, stops at first non-zero')
    g('hash.foreach', ['C04'], 'h_foreach', 'cstl_hash_foreach', replace=['cstl_hash_rehash', '__cstl_hash_foreach'],
      what='foreach = forced completion + full walk')
    g('hash.foreach_const', ['C04'], 'h_foreach_const', 'cstl_hash_foreach_const', replace=['__cstl_hash_foreach'],
      what='foreach_const = full walk of the span, no mutation')
    g('hash.clear', ['C04'], 'h_clear', 'cstl_hash_clear', replace=['__cstl_hash_foreach'],
      what='clear walks the full span and leaves the table as freshly initialised')
    g('hash.clear_init', ['C04'], 'h_clear', 'cstl_hash_clear', replace=['cstl_hash_bucket_foreach'],
      what='clear of a freshly initialised table is a no-op')
    return G


def vector_groups():
    S = 'spec/s_vector.c'
    src = [('vector.c', {'loops': 'spec/loops/vector.lc'})]
    G = []
    quick_sizes = (1, 4, 12)
    all_sizes = (1, 2, 3, 4, 8, 12, 16, 64)
    for esz in all_sizes:
        tier = 'quick' if esz in quick_sizes else 'thorough'
        for fam in ('', 'empty'):
            d = ['-DVF_ESZ=%d' % esz] + (['-DVF_VEC_EMPTY'] if fam else [])
            sfx = '.e%d%s' % (esz, '.empty' if fam else '')

            def g(name, props, harness, enforce, what, **kw):
                G.append(Group('vector.' + name + sfx, props, 'P', S, harness, enforce=enforce, sources=src,
                               defines=d, what=what + ' [element size %d, %s]' % (esz, 'empty vector' if fam else 'vector with storage'),
                               tier=kw.pop('tier', tier), replay=True, thorough_for=(['C16', 'C15'] if esz != 4 else []), **kw))
            g('set_capacity', ['C09', 'C16'], 'h_set_capacity', 'cstl_vector_set_capacity',
              'reallocation lands completely (live buffer of >= (cap+1)*size bytes in 128-bit arithmetic, bytes in range kept) or changes nothing',
              shards=1, solver='kissat')
            g('reserve', ['C09', 'C16'], 'h_reserve', 'cstl_vector_reserve',
              'reserve: never shrinks, quiet no-op when growth is impossible, wf kept')
            g('resize', ['C09', 'C16'], 'h_resize', 'cstl_vector_resize',
              'resize: size == request or abort; ctor once per entering element ascending, dtor once per leaving element descending',
              covers=['end', 'abort'])
            if not fam:
                g('shrink', ['C09', 'C16'], 'h_shrink', 'cstl_vector_shrink_to_fit',
                  'shrink_to_fit: cap == count or unchanged, wf kept')
                g('at', ['C09'], 'h_at', 'cstl_vector_at_const',
                  'at: aborts iff i >= size, else address of element i inside the allocation', covers=['end', 'abort'])
                g('clear', ['C09', 'C15'], 'h_clear', 'cstl_vector_clear',
                  'clear: destructor once per element, storage freed, empty vector')
    for fam in ('', 'empty'):
        d = ['-DVF_ESZ=4', '-DVF_G_wrappers'] + (['-DVF_VEC_EMPTY'] if fam else [])
        for nm, h, fn, rep in (('sort', 'h_w_sort', '__cstl_vector_sort', 'cstl_raw_array_sort'), ('reverse', 'h_w_reverse', '__cstl_vector_reverse', 'cstl_raw_array_reverse'),
                               ('search', 'h_w_search', 'cstl_vector_search', 'cstl_raw_array_search'), ('find', 'h_w_find', 'cstl_vector_find', 'cstl_raw_array_find')):
            G.append(Group('vector.w_%s%s' % (nm, '.empty' if fam else ''), ['C09', 'C11'], 'P', S, h, enforce=fn, replace=[rep], sources=src, defines=d,
                           what='vector %s wrapper: hands the raw-array function exactly the elements [0,size), the element size and the spare slot at index capacity; storage, size and capacity unchanged [element size 4, %s]' % (nm, 'empty vector' if fam else 'vector with storage')))
    G.append(Group('vector.swap', ['C09'], 'P', S, 'h_swap', enforce='cstl_vector_swap', sources=src, defines=['-DVF_G_swap'], replay=True,
                   what='swap exchanges storage, size, capacity and the element description (element size, constructor, destructor, private pointer) together, for any field values'))
    return G


def memory_groups():
    S = 'spec/s_memory.c'
    # the spin loop of cstl_weak_ptr_lock is closed by unwinding (with unwinding assertions):
    # under the sequential precondition "lock flag clear" the first test-and-set succeeds
    src = ['memory.c']
    G = []

    def g(name, props, harness, enforce, what, defines=(), **kw):
        kw.setdefault('replay', name in ('sp_reset', 'lock', 'share.into_empty', 'share.occupied', 'weak_from', 'weak_from.occupied', 'lock.occupied', 'wp_reset', 'unique', 'get', 'up_reset'))
        G.append(Group('memory.' + name, props, 'P', S, harness, enforce=enforce, sources=src,
                       defines=list(defines), what=what, **kw))
    g('up_reset', ['C05', 'C16'], 'h_up_reset', 'cstl_unique_ptr_reset', 'unique reset: clear once on live memory, then free, pointer re-initialised')
    g('up_alloc', ['C05', 'C16'], 'h_up_alloc', 'cstl_unique_ptr_alloc', 'unique alloc: old memory destroyed as by reset; new memory or empty (allocation may fail)')
    g('sp_reset', ['C05'], 'h_sp_reset', 'cstl_shared_ptr_reset', 'shared reset on a block with symbolic counters: hard-1/soft-1, memory dies exactly at hard 1->0, block at soft 1->0')
    g('sp_reset.empty', ['C05'], 'h_sp_reset', 'cstl_shared_ptr_reset', 'shared reset of an empty pointer is a no-op', defines=['-DVF_SP_EMPTY'])
    g('wp_reset', ['C05'], 'h_wp_reset', 'cstl_weak_ptr_reset', 'weak reset: soft-1, block released exactly at soft 1->0, memory untouched')
    g('wp_reset.empty', ['C05'], 'h_wp_reset', 'cstl_weak_ptr_reset', 'weak reset of an empty pointer is a no-op', defines=['-DVF_SP_EMPTY'])
    g('share.into_empty', ['C05'], 'h_share', 'cstl_shared_ptr_share', 'share into an empty pointer: hard+1, soft+1, same memory', defines=['-DVF_SHARE_INTO_EMPTY'])
    g('share.empty_src', ['C05'], 'h_share', 'cstl_shared_ptr_share', 'share an empty pointer into an owner: the owner lets go as by reset', defines=['-DVF_SHARE_EMPTY_SRC'], solver='kissat')
    g('share.occupied', ['C05'], 'h_share', 'cstl_shared_ptr_share', 'share into a pointer that owns another allocation: that allocation is let go exactly as by reset (destroyed iff last owner), then hard+1/soft+1 on the shared one', defines=['-DVF_SHARE_OCCUPIED'], timeout=900, solver='kissat')
    g('weak_from.occupied', ['C05'], 'h_weak_from', 'cstl_weak_ptr_from', 'weak-from onto a weak pointer that refers to another allocation: that one loses exactly one weak reference (never an owner; memory untouched), then soft+1', defines=['-DVF_WEAK_FROM_OCCUPIED'], timeout=900)
    g('lock.occupied', ['C05'], 'h_lock', 'cstl_weak_ptr_lock', 'lock into a pointer that owns another allocation: that one is let go as by reset, then an owner iff an owner still exists', defines=['-DVF_LOCK_OCCUPIED'], unwind=2, timeout=900, solver='kissat')
    g('weak_from', ['C05'], 'h_weak_from', 'cstl_weak_ptr_from', 'weak-from: soft+1 only', defines=['-DVF_WEAK_FROM'])
    g('lock', ['C05'], 'h_lock', 'cstl_weak_ptr_lock', 'lock into an empty pointer: an owner iff hard >= 1 (then hard+1/soft+1), else counters restored; lock flag clear again', defines=['-DVF_LOCK'], unwind=2)
    g('lock.empty_wp', ['C05'], 'h_lock', 'cstl_weak_ptr_lock', 'lock of an empty weak pointer into an owner: the owner lets go as by reset', defines=['-DVF_LOCK_EMPTY_WP'], unwind=2, solver='kissat')
    g('unique', ['C05'], 'h_unique', 'cstl_shared_ptr_unique', 'unique() <=> soft == 1')
    g('unique.empty', ['C05'], 'h_unique', 'cstl_shared_ptr_unique', 'unique() of an empty pointer is true', defines=['-DVF_SP_EMPTY'])
    g('get', ['C05'], 'h_get', 'cstl_shared_ptr_get_const', 'get returns the managed address')
    g('get.empty', ['C05'], 'h_get', 'cstl_shared_ptr_get_const', 'get of an empty pointer is NULL', defines=['-DVF_SP_EMPTY'])
    g('sp_alloc', ['C05', 'C16'], 'h_sp_alloc', 'cstl_shared_ptr_alloc', 'shared alloc into an empty pointer: sole owner of fresh memory, or empty and nothing leaked under every allocation-failure subset',
      defines=['-DVF_SP_ALLOC'])
    g('sp_alloc.occupied', ['C05', 'C16'], 'h_sp_alloc', 'cstl_shared_ptr_alloc', 'shared alloc onto a pointer that owns an allocation: that allocation is let go exactly as by reset for every requested size (also 0), then sole owner of fresh memory or empty',
      defines=['-DVF_SP_ALLOC_OCCUPIED'], solver='kissat', timeout=900)
    for nm, h, fn, txt in (('sp_swap', 'h_sp_swap', 'cstl_shared_ptr_swap', 'shared swap: the two objects exchange their allocations (any pointers, also empty or the same allocation); no counter moves, nothing destroyed (the frame is the two objects)'),
                           ('wp_swap', 'h_wp_swap', 'cstl_weak_ptr_swap', 'weak swap: as shared swap'),
                           ('up_swap', 'h_up_swap', 'cstl_unique_ptr_swap', 'unique swap: memory, clear function and private pointer are exchanged together'),
                           ('swap_self', 'h_swap_self', 'vf_swap_self', 'swapping a shared pointer with itself changes nothing'),
                           ('up_release', 'h_up_release', 'cstl_unique_ptr_release', 'unique release: memory, clear function and private pointer are handed to the caller, nothing cleared or freed, object as freshly initialised')):
        g(nm, ['C05'], h, fn, txt, defines=['-DVF_G_swap'])
    import json, os
    from .run import VERIF
    fn_of = {'gp_get': 'cstl_guarded_ptr_get_const', 'gp_copy_src': 'cstl_guarded_ptr_copy', 'gp_swap_a': 'cstl_guarded_ptr_swap',
             'gp_swap_b': 'cstl_guarded_ptr_swap', 'up_get': 'cstl_unique_ptr_get_const', 'up_release': 'cstl_unique_ptr_release',
             'up_swap_1': 'cstl_unique_ptr_swap', 'up_swap_2': 'cstl_unique_ptr_swap', 'up_reset': 'cstl_unique_ptr_reset',
             'up_alloc': 'cstl_unique_ptr_alloc', 'sp_get': 'cstl_shared_ptr_get_const', 'sp_unique': 'cstl_shared_ptr_unique',
             'sp_share_e': 'cstl_shared_ptr_share', 'sp_share_n': 'cstl_shared_ptr_share', 'sp_swap_1': 'cstl_shared_ptr_swap',
             'sp_swap_2': 'cstl_shared_ptr_swap', 'sp_reset': 'cstl_shared_ptr_reset', 'sp_alloc': 'cstl_shared_ptr_alloc',
             'wp_from_wp': 'cstl_weak_ptr_from', 'wp_from_sp': 'cstl_weak_ptr_from', 'wp_lock_wp': 'cstl_weak_ptr_lock',
             'wp_lock_sp': 'cstl_weak_ptr_lock', 'wp_reset': 'cstl_weak_ptr_reset'}
    ids = json.load(open(os.path.join(VERIF, 'spec', 'stray_memory.json')))
    for i, eid in enumerate(ids, 1):
        # "ensures false": the call must not return; the only reachable end is abort()
        G.append(Group('memory.stray.' + eid, ['C20'], 'P', S, 'h_stray', enforce=fn_of[eid], sources=src, solver='kissat', replay=True,
                       defines=['-DVF_STRAY=%d' % i], covers=['abort'], unwind=2,
                       what='stray (bitwise-copied) object in this argument position, any pointer value: %s never returns normally and writes nothing before aborting' % fn_of[eid]))
    G.append(Group('memory.same_block', ['C05'], 'P', S, 'h_same_block', sources=src, unwind=2, replay=True,
                   what='share / lock onto a pointer that already co-owns the same allocation, every counter state 2 <= hard < soft: counters unchanged, nothing destroyed (explicit objects, loop-free, symbolic counters)'))
    G.append(Group('memory.alloc_reset_leak', ['C05', 'C16'], 'P', S, 'h_alloc_reset_leak', sources=src,
                   cbmc=['--memory-leak-check'], unwind=2,
                   what='closed scenario, loop-free, all sizes and every allocation-failure subset: shared alloc, share, weak-from, lock, reset of everything -> nothing leaked, clear called at most once'))
    return G


def array_groups():
    S = 'spec/s_array.c'
    src = ['array.c', 'memory.c']
    G = []

    def g(name, props, harness, enforce, what, defines=(), **kw):
        G.append(Group('array.' + name, props, 'P', S, harness, enforce=enforce, sources=src,
                       defines=list(defines), what=what, unwind=2, replay=(harness in ('h_slice', 'h_at', 'h_alloc', 'h_reset', 'h_unslice') or (harness == 'h_release' and '-DVF_A_EXTERNAL' not in defines)), **kw))
    g('at', ['C14'], 'h_at', 'cstl_array_at_const', 'at on every well-formed view (internal buffer): inside the buffer iff i < size, else abort', covers=['end', 'abort'])
    g('at.external', ['C14'], 'h_at', 'cstl_array_at_const', 'at on every well-formed view of an external buffer', defines=['-DVF_A_EXTERNAL'], covers=['end', 'abort'])
    g('at.empty', ['C14'], 'h_at', 'cstl_array_at_const', 'at on an empty object always aborts', defines=['-DVF_A_EMPTY'], covers=['abort'])
    g('slice', ['C14'], 'h_slice', 'cstl_array_slice', 'slice into another (empty) object: abort iff end < beg or off+end > nm (128-bit); new view in range and holds its own owner count', covers=['end', 'abort'])
    g('slice.inplace', ['C14'], 'h_slice', 'cstl_array_slice', 'slice in place (a == s)', defines=['-DVF_A_INPLACE'], covers=['end', 'abort'])
    g('unslice', ['C14'], 'h_unslice', 'cstl_array_unslice', 'unslice into another object: whole buffer, own owner count')
    g('unslice.inplace', ['C14'], 'h_unslice', 'cstl_array_unslice', 'unslice in place', defines=['-DVF_A_INPLACE'])
    g('alloc', ['C14', 'C16'], 'h_alloc', 'cstl_array_alloc',
      're-allocating an object that is a view (any offset, any owner counts): old owner count released, fresh view from offset 0 or empty; every allocation-failure subset; unrepresentable nm*sz',
      timeout=800, solver='kissat')
    g('alloc.empty', ['C14', 'C16'], 'h_alloc', 'cstl_array_alloc', 'alloc on an empty object', defines=['-DVF_A_EMPTY'])
    g('release', ['C14'], 'h_release', 'cstl_array_release', 'release of an internal buffer: NULL, nothing changes', solver='kissat')
    g('release.external', ['C14'], 'h_release', 'cstl_array_release', 'release of an external buffer: handed back only to the sole user', defines=['-DVF_A_EXTERNAL'], timeout=800, solver='kissat')
    g('set', ['C14', 'C16'], 'h_set', 'cstl_array_set', 'set wraps an external buffer or leaves the object empty')
    for fam, fd, ftxt in (('', [], 'view of an internal buffer'), ('.external', ['-DVF_A_EXTERNAL'], 'view of an external buffer'), ('.empty', ['-DVF_A_EMPTY'], 'empty object')):
        g('reset' + fam, ['C14'], 'h_reset', 'cstl_array_reset', 'reset lets go of exactly one owner count: allocation released exactly when this was the last object referring to it, object left empty [%s]' % ftxt,
          defines=['-DVF_G_reset'] + fd, solver='kissat')
        g('data' + fam, ['C14'], 'h_data', 'cstl_array_data_const', 'data: the start of the underlying buffer, NULL for an empty object [%s]' % ftxt, defines=['-DVF_G_reset'] + fd)
    names = ['alloc', 'set', 'release', 'data_const', 'at_const', 'slice', 'unslice', 'reset']
    for i, n in enumerate(names, 1):
        G.append(Group('array.stray.' + n, ['C20'], 'P', S, 'h_stray', enforce='cstl_array_' + n, sources=src, solver='kissat', replay=True,
                       defines=['-DVF_STRAY=%d' % i], covers=['abort'], unwind=2,
                       what='stray (bitwise-copied) array object: cstl_array_%s never returns normally and writes nothing before aborting' % n))
    return G


def string_groups():
    S = 'spec/s_string.c'
    src = [('vector.c', {'loops': 'spec/loops/vector.lc'}), '_string.c', 'string.c']
    SRC_LC = [('vector.c', {'loops': 'spec/loops/vector.lc'}), ('_string.c', {'loops': 'spec/loops/string.lc'}), 'string.c']
    G = []
    for w, wd in (('narrow', '-DVF_S_NARROW'), ('wide', '-DVF_S_WIDE')):
        for fam in ('', 'empty'):
            d = [wd] + (['-DVF_S_EMPTY'] if fam else [])
            sfx = '.' + w + ('.empty' if fam else '')

            def g(name, props, harness, enforce, what, defs=(), srcs=None, **kw):
                kw.setdefault('replay', harness in ('h_erase', 'h_resize0', 'h_resize', 'h_prep_insert', 'h_insert_str_n', 'h_insert_ch', 'h_insert', 'h_substr', 'h_at'))
                G.append(Group('string.' + name + sfx, props, 'P', S, harness, enforce=enforce, sources=srcs or src, defines=d + list(defs),
                               what=what + ' [%s, %s]' % (w, 'empty string' if fam else 'string with storage'),
                               thorough_for=(['C16'] if w == 'wide' else []), **kw))
            g('resize0', ['C10', 'C16'], 'h_resize0', 'cstl_%sstring___resize' % ('w' if w == 'wide' else ''),
              '__resize: exactly n characters + NUL, prefix kept, abort when storage for n+1 characters cannot be had', covers=['end', 'abort'])
            g('prep_insert', ['C10', 'C16'], 'h_prep_insert', 'cstl_%sstring_prep_insert' % ('w' if w == 'wide' else ''),
              'prep_insert: abort iff pos > size; size grows by len (or abort), prefix kept and suffix shifted by len, memmove ranges inside the storage', covers=['end', 'abort'],
              shards=1 if fam else 8, timeout=900)
            W_ = 'w' if w == 'wide' else ''
            # insert_str_n: modular (prep_insert replaced by its proved contract) in the quick tier,
            # fully inlined down to realloc (no assumed contract at all) in the thorough tier
            for mode, mtier, mdefs, mrepl in (('', 'quick', ['-DVF_ASSUMED_POST'], ['cstl_%sstring_prep_insert' % W_]), ('.inline', 'thorough', [], [])):
                mtxt = ' (callees inlined down to realloc)' if mode else ' (prep_insert replaced by its proved contract)'
                cov = ['end', 'abort'] if mode else ['end']
                if not fam:
                    g('insert_str_n.old' + mode, ['C10'], 'h_insert_str_n', 'cstl_%sstring_insert_str_n' % W_,
                      'insert_str_n, kept characters: abort iff idx > size; size grows by len; prefix kept, suffix shifted by len' + mtxt,
                      covers=cov, shards=8 if mode else 1, timeout=1200, defs=['-DVF_G_insert_str_n'] + mdefs, replace=mrepl, tier=mtier)
                g('insert_str_n.new' + mode, ['C10'], 'h_insert_str_n', 'cstl_%sstring_insert_str_n' % W_,
                  'insert_str_n, inserted characters: character idx+g of the result is character g of the source for every g < len, whatever the characters are (embedded NULs included)' + mtxt,
                  covers=cov, shards=8 if (mode and not fam) else 1, timeout=1200, defs=['-DVF_G_insert_str_n', '-DVF_INS_NEW'] + mdefs, replace=mrepl, tier=mtier)
            g('insert_ch', ['C10'], 'h_insert_ch', 'cstl_%sstring_insert_ch' % W_,
              'insert_ch (prep_insert replaced by its proved contract, fill loop under loop contract): size grows by cnt, the cnt characters at idx are ch, prefix kept, suffix shifted',
              covers=['end'], replace=['cstl_%sstring_prep_insert' % W_], defs=['-DVF_G_insert_ch', '-DVF_ASSUMED_POST'], srcs=SRC_LC)
            g('resize', ['C10'], 'h_resize', 'cstl_%sstring_resize' % W_,
              'resize (public; __resize replaced by its proved contract, padding loop under loop contract): exactly n characters + NUL, kept prefix, every new character is NUL',
              covers=['end'], replace=['cstl_%sstring___resize' % W_], defs=['-DVF_G_resize', '-DVF_ASSUMED_POST'], srcs=SRC_LC)
            if not fam:
                for sf, sd in (('', []), ('.into_empty', ['-DVF_SUB_EMPTY'])):
                    g('substr' + sf, ['C10'], 'h_substr', 'cstl_%sstring_substr' % W_,
                      'substr%s: abort iff idx >= size; sub is exactly the characters [idx, idx+min(len, size-idx)) for every len; the source is not in the frame (callees inlined down to realloc)' % (' into an empty object' if sf else ' into an object with storage'),
                      covers=['end', 'abort'], defs=['-DVF_G_substr'] + sd, timeout=900, tier=('thorough' if (w == 'wide' and not sf) else 'quick'))
            g('insert', ['C10'], 'h_insert', 'cstl_%sstring_insert' % W_,
              'insert of a string object (header wrapper; insert_str_n replaced by its proved contract): all size(ins) characters are inserted, embedded NULs included',
              covers=['end'], replace=['cstl_%sstring_insert_str_n' % W_], defs=['-DVF_G_insert', '-DVF_G_insert_str_n', '-DVF_INS_NEW', '-DVF_ASSUMED_POST'])
            if not fam:
                g('swap', ['C10'], 'h_sswap', 'cstl_%sstring_swap' % W_, 'swap: the two string objects exchange storage, size and capacity, nothing else is written', defs=['-DVF_G_sswap'])
            g('reserve', ['C10', 'C16'], 'h_reserve', 'cstl_%sstring_reserve' % W_, 'reserve: never shrinks, quiet no-op when the growth cannot be had (allocation failure or sz+1 unrepresentable); size, characters, terminator untouched (vector.c inlined down to realloc)', defs=['-DVF_G_reserve'])
            g('clear', ['C10'], 'h_sclear', 'cstl_%sstring_clear' % W_, 'clear: storage released, the string equals a freshly initialised one', defs=['-DVF_G_reserve'])
            g('at', ['C10'], 'h_at', 'cstl_%sstring_at' % ('w' if w == 'wide' else ''), 'at: abort iff index >= size', covers=['abort'] if fam else ['end', 'abort'])
            g('str', ['C10'], 'h_str', 'cstl_%sstring_str' % ('w' if w == 'wide' else ''), 'str: size characters followed by NUL')
            if not fam:
                g('substr_prep', ['C10'], 'h_substr_prep', 'cstl_%sstring_substr_prep' % ('w' if w == 'wide' else ''),
                  'substr_prep: abort iff pos >= size; count truncated to the characters available for every count', covers=['end', 'abort'])
                g('erase', ['C10'], 'h_erase', 'cstl_%sstring_erase' % ('w' if w == 'wide' else ''),
                  'erase: size shrinks by min(len, size-idx), prefix kept and suffix shifted down, memmove ranges inside the storage, NUL-terminated', covers=['end', 'abort'],
                  shards=6, timeout=900)
    return G


def rawarray_groups():
    S = 'spec/s_rawarray.c'
    src = [('array.c', {'loops': 'spec/loops/rawarray.lc'}), 'memory.c']
    G = []
    for esz in (4, 1):
        d = ['-DVF_ESZ=%d' % esz]

        def g(name, harness, enforce, what, defines_extra=(), **kw):
            G.append(Group('rawarray.%s.e%d' % (name, esz), ['C11'], 'P', S, harness, enforce=enforce, sources=src, defines=d + list(defines_extra),
                           what=what + ' [element size %d]' % esz, **kw))
        g('find', 'h_find', 'cstl_raw_array_find', 'linear find returns the first index comparing equal, -1 iff none; every count')
        if esz in (1, 4):
            # (the 4-byte instance takes 5 minutes with kissat and did not finish with minisat: thorough tier)
            g('reverse', 'h_reverse', 'cstl_raw_array_reverse', 'reverse exactly mirrors the order for every count; writes only the array and the scratch element',
              tier=('quick' if esz == 1 else 'thorough'), timeout=1200, solver='kissat')
        g('search_arith', 'h_search_arith', 'cstl_raw_array_search', 'binary search: for arbitrary comparison outcomes all probes stay inside the array, indices never overflow, result in [-1,count)')
        g('hsort_b', 'h_hsort_b', 'cstl_raw_array_hsort_b', 'heap sort sift-down, every count, arbitrary comparison outcomes: every compared / exchanged element inside the array, no overflow, terminates, frame = array + scratch element',
          defines_extra=['-DVF_G_hsort_b'], timeout=900)
        g('hsort', 'h_hsort', 'cstl_raw_array_hsort', 'heap sort (sift-down replaced by its proved contract), every count: both loops stay inside the array, frame = array + scratch element, terminates',
          defines_extra=['-DVF_G_hsort'], timeout=900, replace=['cstl_raw_array_hsort_b'])
        g('search_func', 'h_search_func', 'cstl_raw_array_search',
          'binary search on a sorted array, every count: sortedness seen from the probe as zone boundaries lo <= hi (greater / equal / smaller); returns an index inside [lo,hi) iff lo < hi, else -1',
          defines_extra=['-DVF_G_search_func'])
    return G


def dlist_groups():
    S = 'spec/s_dlist.c'
    src = [('dlist.c', {'normalise': True})]
    G = []
    steps = {1: ('__cstl_dlist_insert', 'insert between two distinct neighbours'), 2: ('__cstl_dlist_insert', 'insert into the empty ring (p is the head and its own successor)'),
             3: ('__cstl_dlist_insert', 'insert after the last node (successor is the head)'), 4: ('__cstl_dlist_erase', 'erase a node with two distinct neighbours'),
             5: ('__cstl_dlist_erase', 'erase the only node (both neighbours are the head)')}
    for k, (fn, txt) in steps.items():
        G.append(Group('dlist.step%d' % k, ['C12'], 'S', S, 'h_step', enforce=None if k == 2 else fn, sources=src, defines=['-DVF_STEP=%d' % k],
                       what='ring primitive %s: %s; exact relinking, frame = the three nodes and size' % (fn, txt)))
    for k, (fn, txt) in {1: ('cstl_dlist_concat', 'concat on ring neighbourhoods of 0, 1, 2 and >= 3 nodes each (unknown middle as sentinels, any size): splices exactly at the two heads, source left empty and usable, sizes add up, self-concat is a no-op'),
                         2: ('cstl_dlist_swap', 'swap on ring neighbourhoods of 0, 1, 2 and >= 3 nodes each: first and last node re-pointed at the new head, empty rings become self-linked heads, sizes and offsets exchanged')}.items():
        G.append(Group('dlist.step2.%s' % fn[11:], ['C12'], 'S', S, 'h_step2', sources=src, defines=['-DVF_STEP2=%d' % k], unwind=6, functions=[fn],
                       what=txt, covers=['end']))
    G.append(Group('dlist.find_visit', ['C12'], 'P', S, 'h_find_visit', enforce='cstl_dlist_find_visit', sources=src, defines=['-DVF_G_find_visit'], unwind=3,
                   what='one step of find: the visited element is compared with the probe (with the caller\'s private pointer) and becomes the result, stopping the walk, exactly when the comparison says equal'))
    G.append(Group('dlist.wrap', ['C12'], 'P', S, 'h_wrap', sources=src, defines=['-DVF_G_wrap'], replace=['__cstl_dlist_insert', '__cstl_dlist_erase'],
                   functions=['cstl_dlist_push_front', 'cstl_dlist_push_back', 'cstl_dlist_insert', 'cstl_dlist_erase', 'cstl_dlist_pop_front', 'cstl_dlist_pop_back', 'cstl_dlist_front', 'cstl_dlist_back'],
                   what='the loop-free public wrappers hand the ring primitives exactly the right neighbour and node (element/node conversion by the list\'s offset); pop/front/back of an empty list return NULL and touch nothing; any list size'))
    for k, (h, txt, unw) in {1: ('h_b_basic', 'push/pop at both ends, insert/erase at every position, reverse, on every list of length 0..5', 16),
                             2: ('h_b_multi', 'concat/swap over all length pairs, self-concat, clear (+refill), foreach in both directions with every stop position, with and without removal of the visited element', 16),
                             3: ('h_b_sort', 'sort and find (both directions) for every assignment of keys {0,1,2} to lists of length 0..3 (thorough: 0..4): ordered, stable, permutation', 90)}.items():
        G.append(Group('dlist.b%d' % k, ['C12'] + (['C15'] if k == 2 else []), 'B', S, h, sources=src, defines=['-DVF_B=%d' % k] + (['-DVF_SORTLEN=3'] if k == 3 else []), unwind=unw,
                       what='reference-sequence check in both directions after every operation: ' + txt,
                       scope='lists of length 0..5 (sort: 0..3, keys from {0,1,2}); element pointers concrete', replay=True, timeout=900))
    G.append(Group('dlist.b3.len4', ['C12'], 'B', S, 'h_b_sort', sources=src, defines=['-DVF_B=3', '-DVF_SORTLEN=4'], unwind=90, tier='thorough',
                   what='sort and find for every assignment of keys {0,1,2} to lists of length 0..4', scope='lists of length 0..4, keys {0,1,2}', replay=True, timeout=1800, weight=3))
    return G


def all_groups():
    G = []
    G += hash_groups()
    G += vector_groups()
    G += memory_groups()
    G += array_groups()
    G += string_groups()
    G += rawarray_groups()
    G += dlist_groups()
    # modules contributed as separate files: vflib/g_<module>.py exposing groups()
    import glob
    import importlib
    import os
    for f in sorted(glob.glob(os.path.join(os.path.dirname(os.path.abspath(__file__)), 'g_*.py'))):
        m = importlib.import_module('vflib.' + os.path.basename(f)[:-3])
        G += m.groups()
    return G
