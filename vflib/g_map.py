"""Groups for the map (C08, C15 map part, C16 map part): bounded whole-operation checks on concrete scripts.

Sizing note: the vacuity run of a B group makes CBMC emit the complete execution as a JSON trace (about 1 kB per
executed statement), so every group is kept at roughly 100-170 thousand symbolic-execution steps; that is why the
script tree is cut into slices by first and second operation."""
from .run import Group


def groups():
    S = 'spec/s_map.c'
    src = [('bintree.c', {'normalise': True}), ('rbtree.c', {'normalise': True}), 'map.c']
    G = []
    ins = ['insert K[0]', 'insert K[1]', 'insert K[2]', 'insert K2[0]', 'insert K2[1]', 'insert K2[2]']
    opname = ['insert K[%d]' % i for i in range(3)] + ['insert K2[%d]' % i for i in range(3)] + ['erase key %d' % i for i in range(3)] + \
             ['erase by iterator from find(%d)' % i for i in range(3)]
    alphabet = ('alphabet {insert K[i], insert K2[i] (equal key, other key object), erase by key i, erase by iterator from find(i), '
                'find i}, i in 0..2')
    model = ('after every state-changing operation: size, find of every key (stored key/value pointers or end), red-black tree walk '
             '(parent links, strict key order, root black, no red-red, equal black height, every node a live allocation carrying the '
             'stored pointers); operations that do not change the map (insert of a present key -> 1, erase of an absent key -> -1, find) '
             'are checked for their result and for leaving map, nodes and allocator bit-for-bit untouched; at every reached state: clear '
             'with a recording callback (each entry exactly once with its stored pointers), leak / double-free / write-after-free audit '
             'of the node allocator, re-insert, clear without callback')
    sec = [(0, 2, 'insert K[j]'), (3, 5, 'insert K2[j]'), (6, 14, 'erase by key / by iterator')]
    # --- C08: script tree, quick: at most 3 state-changing operations (any number of non-changing ones in between)
    for f in range(6):
        for k, (lo, hi, txt) in enumerate(sec):
            G.append(Group('map.script.len3.first%d.second%d' % (f, k), ['C08', 'C15'], 'B', S, 'h_b_script', sources=src,
                           defines=['-DVF_B=1', '-DVF_ARENA', '-DVF_LEN=3', '-DVF_FIRST_LO=%d' % f, '-DVF_FIRST_HI=%d' % f,
                                    '-DVF_SECOND_LO=%d' % lo, '-DVF_SECOND_HI=%d' % hi],
                           unwind=20, malloc_fail=False, timeout=900, replay=True,
                           what='every operation script with at most 3 state-changing operations starting with "%s", then "%s" (%s): %s' % (ins[f], txt, alphabet, model),
                           scope='maps of <= 3 entries, keys {0,1,2} through two key objects each; scripts with <= 3 inserts-of-new/erases-of-present '
                                 'and any number of interleaved duplicate inserts, failed erases and finds (covers every script of length <= 3); '
                                 'node allocator = static arena, never fails'))
    # --- thorough: at most 4 state-changing operations, one slice per first and second state-changing operation
    for f in range(6):
        a = f % 3
        for c in [x for x in range(6) if x % 3 != a] + [6 + a, 9 + a]:
            G.append(Group('map.script.len4.first%d.second%d' % (f, c), ['C08', 'C15'], 'B', S, 'h_b_script', sources=src,
                           defines=['-DVF_B=1', '-DVF_ARENA', '-DVF_LEN=4', '-DVF_FIRST_LO=%d' % f, '-DVF_FIRST_HI=%d' % f,
                                    '-DVF_SECOND_LO=%d' % c, '-DVF_SECOND_HI=%d' % c],
                           unwind=20, malloc_fail=False, timeout=1800, tier='thorough', replay=True, weight=2,
                           what='every operation script with at most 4 state-changing operations starting with "%s", "%s" (%s): %s' % (ins[f], opname[c], alphabet, model),
                           scope='maps of <= 3 entries, keys {0,1,2}; scripts with <= 4 state-changing operations and any number of interleaved '
                                 'non-changing ones (covers every script of length <= 4); static arena, never fails'))
    # --- C15 / C08: clear on maps built in every insertion order, on the real malloc/free (CBMC heap model)
    for p, txt in ((0, 'with the recording callback'), (1, 'without callback')):
        for f in range(4):
            G.append(Group('map.clear.n4.%s.first%d' % ('cb' if p == 0 else 'nocb', f), ['C08', 'C15'], 'B', S, 'h_b_clear', sources=src,
                           defines=['-DVF_B=2', '-DVF_NK=4', '-DVF_PASS=%d' % p, '-DVF_FIRST=%d' % f], unwind=300, malloc_fail=False,
                           cbmc=['--memory-leak-check'], timeout=900, replay=True,
                           what='cstl_map_clear %s on the map built by every sequence of 0..4 distinct keys out of 4 starting with key %d%s (inserts alternately '
                                'with / without iterator, through either key object): callback exactly once per entry with a detached iterator carrying '
                                'the stored pointers while the node is still allocated; one free per node, none twice; no access to a freed node (CBMC '
                                'deallocated-object checks); map empty, re-usable; nothing leaked (--memory-leak-check)'
                                % (txt, f, ' (and the empty map)' if f == 0 else ''),
                           scope='maps of 0..4 entries, every insertion order starting with key %d; nodes from CBMC\'s malloc (never fails)' % f))
    # --- C16: the allocation of one chosen insert fails
    for f in range(6):
        for k, (lo, hi, txt) in enumerate(((0, 5, 'an insert'), (6, 14, 'an erase'))):
            G.append(Group('map.fail.len3.first%d.second%d' % (f, k), ['C08', 'C16'], 'B', S, 'h_b_fail', sources=src,
                           defines=['-DVF_B=3', '-DVF_ARENA', '-DVF_LEN=3', '-DVF_FIRST_LO=%d' % f, '-DVF_FIRST_HI=%d' % f,
                                    '-DVF_SECOND_LO=%d' % lo, '-DVF_SECOND_HI=%d' % hi],
                           unwind=20, malloc_fail=False, timeout=900, replay=True,
                           what='allocation failure inside cstl_map_insert, injected deterministically (the n-th malloc returns NULL): at every state reached '
                                'by <= 2 state-changing operations starting with "%s" then %s (slice 0 also: this insert itself on the empty map, and every '
                                'insert after it) every insert of an absent key is run with its allocation failing: returns -1, end iterator (also with '
                                'iterator == NULL), map object, every node and the allocator bit-for-bit as before (so any continuation behaves as without '
                                'the failed call), full model check; then the same insert succeeds, the entry is erased, clear releases everything '
                                '(zero live nodes)' % (ins[f], txt),
                           scope='scripts of <= 3 inserts/erases in which the failing insert is the 1st, 2nd or 3rd operation; keys {0,1,2}; static arena'))
    # --- C08: bigger trees: fill with 4 keys in every order, erase in every order (quick: 4 orders, thorough: the other 20)
    quick_orders = (0, 9, 14, 23)       # 0 = (3,2,1,0) descending ... 23 = (0,1,2,3) ascending (enumeration of h_b_drain)
    for o in range(24):
        G.append(Group('map.drain.n4.order%02d' % o, ['C08'], 'B', S, 'h_b_drain', sources=src,
                       defines=['-DVF_B=4', '-DVF_ARENA', '-DVF_NK=4', '-DVF_ORDER_LO=%d' % o, '-DVF_ORDER_HI=%d' % o],
                       unwind=300, malloc_fail=False, timeout=900, replay=True, tier='quick' if o in quick_orders else 'thorough',
                       what='4 keys inserted in insertion order #%d of 24, then erased in every one of the 24 orders (erase by key and by iterator '
                            'alternating), full model / red-black check after every operation; the drained map holds no allocation; the full map is '
                            'cleared with the recording callback' % o,
                       scope='maps of <= 4 entries: 1 insertion order x 24 erase orders; static arena'))
    return G
