"""Groups for the map (C08, C15 map part, C16 map part): bounded whole-operation checks on concrete scripts."""
from .run import Group


def groups():
    S = 'spec/s_map.c'
    src = [('bintree.c', {'normalise': True}), ('rbtree.c', {'normalise': True}), 'map.c']
    G = []
    ins = ['insert K[0]', 'insert K[1]', 'insert K[2]', 'insert K2[0]', 'insert K2[1]', 'insert K2[2]']
    alphabet = ('alphabet {insert K[i], insert K2[i] (equal key, other key object), erase by key i, erase by iterator from find(i), '
                'find i}, i in 0..2')
    model = ('after every state-changing operation: size, find of every key (stored key/value pointers or end), red-black tree walk '
             '(parent links, strict key order, root black, no red-red, equal black height, every node a live allocation carrying the '
             'stored pointers); operations that do not change the map (insert of a present key -> 1, erase of an absent key -> -1, find) '
             'are checked for their result and for leaving map, nodes and allocator bit-for-bit untouched; at every reached state: clear '
             'with a recording callback (each entry exactly once with its stored pointers), leak / double-free / write-after-free audit '
             'of the node allocator, re-insert, clear without callback')
    # --- C08: script tree, quick: at most 3 state-changing operations (any number of non-changing ones in between)
    for f in range(6):
        G.append(Group('map.script.len3.first%d' % f, ['C08', 'C15'], 'B', S, 'h_b_script', sources=src,
                       defines=['-DVF_B=1', '-DVF_ARENA', '-DVF_LEN=3', '-DVF_FIRST_LO=%d' % f, '-DVF_FIRST_HI=%d' % f],
                       unwind=20, malloc_fail=False, timeout=900, replay=True,
                       what='every operation script with at most 3 state-changing operations starting with "%s" (%s): %s' % (ins[f], alphabet, model),
                       scope='maps of <= 3 entries, keys {0,1,2} through two key objects each; scripts with <= 3 inserts-of-new/erases-of-present '
                             'and any number of interleaved duplicate inserts, failed erases and finds (covers every script of length <= 3); '
                             'node allocator = static arena, never fails'))
    # --- thorough: at most 4 state-changing operations, split by first operation and a range of second operations
    sec = [(0, 2, 'insert K[j]'), (3, 5, 'insert K2[j]'), (6, 14, 'erase / erase by iterator')]
    for f in range(6):
        for k, (lo, hi, txt) in enumerate(sec):
            G.append(Group('map.script.len4.first%d.second%d' % (f, k), ['C08', 'C15'], 'B', S, 'h_b_script', sources=src,
                           defines=['-DVF_B=1', '-DVF_ARENA', '-DVF_LEN=4', '-DVF_FIRST_LO=%d' % f, '-DVF_FIRST_HI=%d' % f,
                                    '-DVF_SECOND_LO=%d' % lo, '-DVF_SECOND_HI=%d' % hi],
                           unwind=20, malloc_fail=False, timeout=1800, tier='thorough', replay=True, weight=2,
                           what='every operation script with at most 4 state-changing operations starting with "%s", then "%s" (%s): %s' % (ins[f], txt, alphabet, model),
                           scope='maps of <= 3 entries, keys {0,1,2}; scripts with <= 4 state-changing operations and any number of interleaved '
                                 'non-changing ones (covers every script of length <= 4); static arena, never fails'))
    # --- C15 / C08: clear on maps built in every insertion order, on the real malloc/free (CBMC heap model)
    for p, txt in ((0, 'with the recording callback'), (1, 'without callback')):
        for nk, tier, unw, to in ((4, 'quick', 300, 900), (5, 'thorough', 3200, 3000)):
            G.append(Group('map.clear.n%d.%s' % (nk, 'cb' if p == 0 else 'nocb'), ['C08', 'C15'], 'B', S, 'h_b_clear', sources=src,
                           defines=['-DVF_B=2', '-DVF_NK=%d' % nk, '-DVF_PASS=%d' % p], unwind=unw, malloc_fail=False,
                           cbmc=['--memory-leak-check'], timeout=to, tier=tier, replay=True, weight=2 if nk == 5 else 1,
                           what='cstl_map_clear %s on the map built by every sequence of 0..%d distinct keys out of %d (inserts alternately with / without '
                                'iterator, through either key object): callback exactly once per entry with a detached iterator carrying the stored '
                                'pointers while the node is still allocated; one free per node, none twice; no access to a freed node (CBMC '
                                'deallocated-object checks); map empty, re-usable; nothing leaked (--memory-leak-check)' % (txt, nk, nk),
                           scope='maps of 0..%d entries, every insertion order; nodes from CBMC\'s malloc (never fails)' % nk))
    # --- C16: the allocation of one chosen insert fails
    for f in range(6):
        G.append(Group('map.fail.len3.first%d' % f, ['C08', 'C16'], 'B', S, 'h_b_fail', sources=src,
                       defines=['-DVF_B=3', '-DVF_ARENA', '-DVF_LEN=3', '-DVF_FIRST_LO=%d' % f, '-DVF_FIRST_HI=%d' % f],
                       unwind=20, malloc_fail=False, timeout=900, replay=True,
                       what='allocation failure inside cstl_map_insert, injected deterministically (the n-th malloc returns NULL): at every state reached '
                            'by <= 2 state-changing operations starting with "%s" (and for this insert itself on the empty map) every insert of an '
                            'absent key is run with its allocation failing: returns -1, end iterator (also with iterator == NULL), map object, every '
                            'node and the allocator bit-for-bit as before (so any continuation behaves as without the failed call), full model '
                            'check; then the same insert succeeds, the entry is erased, clear releases everything (zero live nodes)' % ins[f],
                       scope='scripts of <= 3 inserts/erases in which the failing insert is the 1st, 2nd or 3rd operation; keys {0,1,2}; static arena'))
    # --- C08: bigger trees: fill with 4 keys in every order, erase in every order
    for f in range(4):
        G.append(Group('map.drain.n4.first%d' % f, ['C08'], 'B', S, 'h_b_drain', sources=src,
                       defines=['-DVF_B=4', '-DVF_ARENA', '-DVF_NK=4', '-DVF_FIRST_LO=%d' % f, '-DVF_FIRST_HI=%d' % f],
                       unwind=300, malloc_fail=False, timeout=900, replay=True,
                       what='4 keys inserted in every order starting with key %d, then erased in every order (erase by key and by iterator alternating), '
                            'full model / red-black check after every operation; the drained map holds no allocation; the full map is cleared with '
                            'the recording callback' % f,
                       scope='maps of <= 4 entries: 6 insertion orders x 24 erase orders; static arena'))
    return G
