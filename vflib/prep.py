"""Mechanical preparation of /repo sources for CBMC.

Two transformations, both reversible and both re-validated on every run:

1. Loop-contract injection (DESIGN 4.2): clause lines from spec/loops/<module>.lc are
   inserted between the head of the k-th loop of function f and its body.  Deleting the
   inserted spans reproduces /repo's file byte for byte (checked).
2. Cast normalisation (DESIGN 4.3): `(uintptr_t)<lvalue> +/-`  ->  `(char *)<lvalue> +/-`
   in the container-of idiom.  Reverting reproduces /repo's file byte for byte (checked);
   the number of rewritten sites is reported.

Any mismatch raises PrepError -> exit 2 (infrastructure), never a violation.
"""
import os
import re


class PrepError(Exception):
    pass


MARK_BEGIN = "/*VF-LC-BEGIN*/"
MARK_END = "/*VF-LC-END*/"

# macros in /repo that expand to a loop head and are followed by the loop body
LOOP_MACROS = {"HASH_LIST_FOREACH"}


def _blank_comments_and_strings(src):
    """Return a same-length copy of src with comments, string and char literals
    replaced by spaces (newlines kept), so that keyword / brace scanning is safe."""
    out = list(src)
    i, n = 0, len(src)
    while i < n:
        c = src[i]
        if c == '/' and i + 1 < n and src[i + 1] == '*':
            j = src.find('*/', i + 2)
            j = n if j < 0 else j + 2
            for k in range(i, j):
                if out[k] != '\n':
                    out[k] = ' '
            i = j
        elif c == '/' and i + 1 < n and src[i + 1] == '/':
            j = src.find('\n', i)
            j = n if j < 0 else j
            for k in range(i, j):
                out[k] = ' '
            i = j
        elif c == '"' or c == "'":
            q = c
            j = i + 1
            while j < n and src[j] != q:
                if src[j] == '\\':
                    j += 1
                j += 1
            for k in range(i + 1, min(j, n)):
                if out[k] != '\n':
                    out[k] = ' '
            i = j + 1
        else:
            i += 1
    return ''.join(out)


def _match_paren(s, i, open_c='(', close_c=')'):
    """s[i] == open_c; return index of the matching close_c."""
    depth = 0
    n = len(s)
    while i < n:
        if s[i] == open_c:
            depth += 1
        elif s[i] == close_c:
            depth -= 1
            if depth == 0:
                return i
        i += 1
    raise PrepError("unbalanced %s" % open_c)


def _skip_ws(s, i):
    n = len(s)
    while i < n and s[i] in ' \t\r\n':
        i += 1
    return i


def find_function_body(clean, name):
    """Return (body_open_brace_index, body_close_brace_index) of the *definition* of
    function `name` in `clean` (comment-blanked source).  Handles the STRF(name, ...)
    template spelling used by _string.c."""
    pats = [r'(?<![A-Za-z0-9_])%s\s*\(' % re.escape(name)]
    # _string.c: STRF(__resize, struct ...) defines cstl_STRING___resize
    m = re.match(r'cstl_STRING_(.*)$', name)
    if m:
        pats.append(r'(?<![A-Za-z0-9_])STRF\s*\(\s*%s\s*,' % re.escape(m.group(1)))
    for pat in pats:
        for mm in re.finditer(pat, clean):
            po = clean.index('(', mm.start())
            pc = _match_paren(clean, po)
            j = _skip_ws(clean, pc + 1)
            if j < len(clean) and clean[j] == '{':
                return j, _match_paren(clean, j, '{', '}')
    raise PrepError("function definition not found: %s" % name)


def find_loops(clean, bo, bc):
    """Return, in textual order, the insertion offsets for the loops inside clean[bo:bc]:
    for `for`/`while`/loop-macro loops the offset just after the head's closing paren, for
    `do` loops the offset just after the keyword.  `while` tails of do-loops are skipped."""
    res = []
    do_stack = []       # brace depth at which a `do` body was opened
    tok = re.compile(r'[A-Za-z_][A-Za-z0-9_]*|[{}();]')
    depth = 0
    pending_do_tail = None  # brace depth: the next `while` at this depth closes a do
    i = bo
    # a do-body is always a braced block in this code base (checked below)
    pos = bo
    for m in tok.finditer(clean, bo, bc + 1):
        if m.start() < pos:
            continue
        t = m.group(0)
        if t == '{':
            depth += 1
        elif t == '}':
            depth -= 1
            if do_stack and do_stack[-1] == depth:
                do_stack.pop()
                pending_do_tail = depth
        elif t == 'do':
            j = _skip_ws(clean, m.end())
            if clean[j] != '{':
                raise PrepError("do-loop without braced body")
            res.append(('do', m.end()))
            do_stack.append(depth)
        elif t in ('for', 'while') or t in LOOP_MACROS:
            po = _skip_ws(clean, m.end())
            if clean[po] != '(':
                continue
            pc = _match_paren(clean, po)
            if t == 'while' and pending_do_tail is not None and pending_do_tail == depth:
                pending_do_tail = None
            else:
                res.append((t, pc + 1))
            pos = pc + 1
        elif t == ';':
            pass
    return res


def parse_lc(path):
    """Parse a .lc file:
         @loop <function> <ordinal>
         <clause lines>
         @end
    Returns list of (function, ordinal(1-based), text)."""
    out = []
    cur = None
    with open(path) as f:
        for ln in f:
            if ln.startswith('#'):
                continue
            if ln.startswith('@loop'):
                parts = ln.split()
                cur = [parts[1], int(parts[2]), []]
            elif ln.startswith('@end'):
                out.append((cur[0], cur[1], ''.join(cur[2])))
                cur = None
            elif cur is not None:
                cur[2].append(ln)
    return out


def inject_loops(src, entries):
    clean = _blank_comments_and_strings(src)
    inserts = []
    for fn, k, text in entries:
        bo, bc = find_function_body(clean, fn)
        loops = find_loops(clean, bo, bc)
        if k < 1 or k > len(loops):
            raise PrepError("loop %d of %s not found (%d loops)" % (k, fn, len(loops)))
        inserts.append((loops[k - 1][1], "\n" + MARK_BEGIN + "\n" + text.rstrip('\n') + "\n" + MARK_END + "\n"))
    inserts.sort()
    out = []
    last = 0
    for off, txt in inserts:
        out.append(src[last:off])
        out.append(txt)
        last = off
    out.append(src[last:])
    res = ''.join(out)
    # must-hold: deleting the spans gives back the original
    back = re.sub(r'\n' + re.escape(MARK_BEGIN) + r'\n.*?\n' + re.escape(MARK_END) + r'\n', '', res, flags=re.S)
    if back != src:
        raise PrepError("loop injection is not reversible")
    return res


CAST_RE = re.compile(r'\(uintptr_t\)([A-Za-z_][A-Za-z0-9_]*(?:(?:->|\.)[A-Za-z_][A-Za-z0-9_]*)*)(\s*)([+-])(?!\s*\(uintptr_t\))')

# recorded number of container-of cast sites per file in the non-test part
CAST_SITES = {
    'array.c': 1, 'bintree.c': 2, 'dlist.c': 2, 'hash.c': 2, 'heap.c': 2,
    'rbtree.c': 2, 'slist.c': 2, 'vector.c': 1,
}


def normalise_casts(src, fname):
    # only the library part (before the unit tests) is rewritten
    cut = src.find('#ifdef __cfg_test__')
    head, tail = (src, '') if cut < 0 else (src[:cut], src[cut:])
    new, n = CAST_RE.subn(lambda m: '(char *)' + m.group(1) + m.group(2) + m.group(3), head)
    exp = CAST_SITES.get(fname, 0)
    if n != exp:
        raise PrepError("cast normalisation: %s has %d sites, expected %d" % (fname, n, exp))
    back = re.sub(r'\(char \*\)([A-Za-z_][A-Za-z0-9_]*(?:(?:->|\.)[A-Za-z_][A-Za-z0-9_]*)*)(\s*)([+-])',
                  lambda m: '(uintptr_t)' + m.group(1) + m.group(2) + m.group(3), new)
    if back != head:
        raise PrepError("cast normalisation is not reversible for %s" % fname)
    return new + tail, n


def prepare(repo, scratch, fname, lc_path=None, normalise=False):
    """Copy repo/src/<fname> to scratch/<fname> with the requested transformations.
    Returns dict describing what was done."""
    p = os.path.join(repo, 'src', fname)
    with open(p) as f:
        src = f.read()
    info = {'file': fname, 'loops_injected': 0, 'casts_rewritten': 0}
    if normalise:
        src, n = normalise_casts(src, fname)
        info['casts_rewritten'] = n
    if lc_path:
        entries = parse_lc(lc_path)
        src = inject_loops(src, entries)
        info['loops_injected'] = len(entries)
        info['loops'] = ["%s#%d" % (e[0], e[1]) for e in entries]
    os.makedirs(scratch, exist_ok=True)
    with open(os.path.join(scratch, fname), 'w') as f:
        f.write(src)
    return info
