"""Per-property metadata and evidence assembly."""
import os

COMMON_TRUST = [
    "cbmc/goto-cc/goto-instrument 6.11.0 (C front end, DFCC contract instrumentation, symbolic execution) and the SAT/SMT back ends (minisat2 built in; kissat from the Kani bundle where a group names it; cvc5 1.0) are sound",
    "CBMC's C semantics (LP64, little endian, IEEE-754 binary32 round-to-nearest) match gcc on x86-64 for this code",
    "CBMC's malloc/realloc/free models stand for glibc (fresh objects; realloc(p,0) frees; object size < 2^55)",
    "spec TUs include /repo/src/<module>.c textually; loop-contract clauses are inserted between loop head and body by vflib/prep.py (reversibility checked every run)",
]
NORMALISE_TRUST = "pointer-container groups: the container-of idiom `(T *)((uintptr_t)p +/- k)` is rewritten to `(T *)((char *)p +/- k)` in a scratch copy (site count and reversibility checked every run); equal addresses on a flat address space is assumed"
STEP_ASSUME = "step (S) obligations hold for every neighbourhood; the induction that composes steps into whole operations on arbitrarily large structures is a written argument (DESIGN.md section 5), machine-checked only inside the bounded (B) scopes"
BOUNDED_ASSUME = "bounded (B) obligations hold only inside their stated scopes"
HIST_ASSUME = "history properties follow from per-operation contracts by induction over the operation sequence (every public operation requires and re-establishes the representation invariant); that induction is the meta-step of the technique and not itself an obligation"
CALLBACK_ASSUME = "user callbacks satisfy the documented requirements (cmp is a consistent total preorder and does not modify the container; visit/clear callbacks touch only the element handed to them; hash functions are deterministic)"

PROPS = {}


def _p(pid, level, design, assumptions, trusted=None):
    PROPS[pid] = {'level': level, 'design': design, 'assumptions': assumptions,
                  'trusted': (trusted or []) + COMMON_TRUST}


def evidence(prop, meta, tier, seed, results, violations, known_hits, wall, tools):
    from .run import VERIF
    byk = {'P': [], 'S': [], 'B': []}
    for r in results:
        byk[r.group.kind].append(r)

    def count(rs, status=None):
        n = 0
        for r in rs:
            for o in r.obligations:
                if status is None or o[1] == status:
                    n += 1
        return n
    groups = []
    functions = set()
    samples = []
    for r in sorted(results, key=lambda r: r.group.gid):
        g = r.group
        for f in g.functions:
            functions.add(f)
        ok = sum(1 for o in r.obligations if o[1] == 'SUCCESS')
        groups.append({
            'group': g.gid, 'kind': {'P': 'proved (unbounded)', 'S': 'step contract (unbounded in the surrounding structure)', 'B': 'bounded'}[g.kind],
            'what': g.what, 'function_under_contract': g.enforce, 'callees_replaced_by_contract': g.replace,
            'status': r.status, 'reason': r.reason, 'obligations': len(r.obligations), 'discharged': ok,
            'back_end': ({'sat': 'cbmc built-in SAT (minisat2)', 'kissat': 'kissat via cbmc --external-sat-solver', 'cvc5': 'cvc5 via cbmc --cvc5', 'z3': 'z3'}[g.solver]) + ((' | refuter: ' + g.refuter) if getattr(g, 'refuter', None) else ''),
            'solver_s': round(r.solver_s, 2), 'wall_s': round(r.wall_s, 2),
            'scope': g.scope, 'instances': r.n_instances, 'native_execution': r.native,
            'vacuity_covers': {'goals': r.cover_total, 'satisfied': r.cover_sat,
                               'normal_return_reachable': r.covers.get('end'), 'abort_reachable': r.covers.get('abort')},
            'source_preparation': r.prep,
            'allocation_failure_explored': g.malloc_fail,
        })
        # samples: contract-level obligations first
        for o in r.obligations:
            if len(samples) < 40 and ('postcondition' in o[0] or 'loop_invariant' in o[0] or 'assertion' in o[0].split('.')[-2:-1]
                                      or 'precondition' in o[0]) and 'cprover_contracts' not in o[0] and '__CPROVER' not in o[0]:
                samples.append({'group': g.gid, 'obligation': o[0], 'status': o[1], 'description': o[2][:200]})
    n_obl = count(results)
    n_ok = count(results, 'SUCCESS')
    cov = {
        'functions_under_contract': sorted(functions),
        'groups': groups,
        'obligations_proved': {'total': count(byk['P']), 'discharged': count(byk['P'], 'SUCCESS')},
        'obligations_step': {'total': count(byk['S']), 'discharged': count(byk['S'], 'SUCCESS')},
        'obligations_bounded': {'total': count(byk['B']), 'discharged': count(byk['B'], 'SUCCESS')},
        'samples': samples[:40] or [{'note': 'no contract-level obligation produced'}],
        'solver_s_total': round(sum(r.solver_s for r in results), 2),
        'tools': tools,
        'violations_detail': violations,
        'known_findings_hit': [k[0]['text'] for k in known_hits],
        'undecided_groups': [r.group.gid for r in results if r.status == 'undecided'],
    }
    def b_eval(r):
        n = r.native or {}
        return n.get('scenarios') or n.get('checks') or 0

    def b_nontriv(r):
        n = r.native or {}
        return n.get('nontrivial') if n.get('scenarios') else (n.get('sites') or 0)
    inst = sum(b_eval(r) for r in byk['B'])
    def guard_ok(r):
        # a proved / step group is non-trivial when every vacuity canary it requires was reachable
        # (normal return and/or abort, per group)
        return r.status == 'pass' and all(r.covers.get(c, False) for c in r.group.covers)
    nontriv = sum(b_nontriv(r) for r in byk['B']) + sum(1 for r in byk['P'] + byk['S'] if guard_ok(r))
    if meta['level'] == 'proof':
        # only unbounded obligations count for a proof-level claim
        cov['obligations'] = count(byk['P']) + count(byk['S'])
        cov['discharged'] = count(byk['P'], 'SUCCESS') + count(byk['S'], 'SUCCESS')
        cov['checker_cmd'] = 'goto-cc --function <harness> spec/<module>.c && goto-instrument --dfcc <harness> --enforce-contract <f> [--replace-call-with-contract <g>]... [--apply-loop-contracts] && cbmc [--cvc5]  (exact commands per group: out/logs/%s/<group>.log)' % prop
        cov['trusted_base'] = meta['trusted']
        cov['evaluations'] = len(results)
        cov['distinct_nontrivial'] = sum(1 for r in byk['P'] + byk['S'] if guard_ok(r)) + \
            sum(1 for r in byk['B'] if r.native and r.native.get('ran') and not r.native.get('failed'))
        cov['rule'] = ("evaluations = obligation groups decided in this run (one contract instance each: all inputs at once); "
                       "distinct_nontrivial = groups whose vacuity canaries were all reachable (normal return and/or abort, as the "
                       "contract requires), plus bounded groups whose harness also ran natively on the real code; groups are distinct by construction")
    else:
        cov['evaluations'] = inst + len(byk['P']) + len(byk['S'])
        cov['distinct_nontrivial'] = nontriv
        cov['rule'] = ("evaluations = scenarios enumerated by the bounded (B) harnesses, counted by executing the same harness text natively "
                       "on the real code (VF_SCEN counter; for harnesses without scenario markers: number of assertion evaluations) "
                       "+ one per proved/step group (each decides its contract for all inputs at once). "
                       "distinct_nontrivial = scenarios the harness marks non-trivial (structure with more than one element; scenarios are distinct by "
                       "construction of the enumeration; for harnesses without markers: number of distinct assertion sites evaluated) "
                       "+ P/S groups whose normal-return canary is reachable.")
        cov['traces_validated_against_impl'] = sum(1 for r in byk['B'] if r.native and r.native.get('ran') and not r.native.get('failed'))
        cov['obligations'] = n_obl
        cov['discharged'] = n_ok
        cov['checker_cmd'] = 'see groups[].  exact commands: out/logs/%s/<group>.log' % prop
        cov['trusted_base'] = meta['trusted']
        cov['exhaustive'] = False
    return {
        'property_id': prop,
        'tier': tier,
        'seed': seed,
        'level': meta['level'],
        'coverage': cov,
        'assumptions': meta['assumptions'],
        'wall_s': round(wall, 2),
        'violations': len(violations),
    }


# ----------------------------------------------------------------------------- claims
LIBC_ASSUME = "libc: the spec's realloc model (fresh object or NULL, contents of an arbitrary ghost window preserved, old block freed, realloc(p,0) frees) and CBMC's malloc/free stand for glibc"
SIZE_ASSUME = "sizes that cannot exist in a 64-bit process are excluded by precondition where the tool needs it (hash bucket counts <= UINT_MAX, reference counts < 2^31, heap size < 2^31-1, live buffers < 2^55 bytes)"

FENCE_ASSUME = "memory.c: C11 atomics are executed sequentially (DFCC warns that 'fence' statements are not instrumented); nothing is claimed about concurrent executions (C06 is not applicable)"
REALLOC_NOTE = "content preservation across realloc is proved for one arbitrary ghost window per run (stands for every window); a valid _Bool object holds 0 or 1 (type invariant of the inputs)"

_p('C05', 'proof', 'DESIGN.md 5/C05',
   [HIST_ASSUME, FENCE_ASSUME, SIZE_ASSUME, LIBC_ASSUME,
    "per-operation contracts cover: unique alloc/reset/release/swap; shared alloc (into empty / onto an owner), reset, share (into empty / from empty / onto an owner of another allocation), unique, get, swap; weak from (into empty / onto a weak reference of another allocation), lock (into empty / from empty / onto an owner of another allocation), reset, swap. shared / weak / unique swap (also with itself) and unique release are under contract: the frame is the two objects, so no counter moves and nothing is destroyed",
    "the case 'both pointers already own the same allocation' (share/lock onto a co-owner) is decided on explicit objects with symbolic counters (group memory.same_block), not through an is_fresh contract (DFCC cannot alias two fresh parameters)"])
_p('C09', 'proof', 'DESIGN.md 5/C09',
   [HIST_ASSUME, LIBC_ASSUME, REALLOC_NOTE, SIZE_ASSUME,
    "element size is a constant per instance: {1,4,12} in the quick tier, {1,2,3,4,8,12,16,64} in the thorough tier; buffers below 2^40 bytes (DFCC allocation limit)",
    "sort/reverse/swap of a vector are exercised under C11 (raw array contracts); here: set_capacity, reserve, shrink_to_fit, resize, at, clear"])
_p('C17', 'proof', 'DESIGN.md 5/C17',
   [CALLBACK_ASSUME, SIZE_ASSUME,
    "the relocation of a chain during a rehash (cstl_clean_bucket) consults the pending function once per node through the same fail-stop selection; that is checked on chains of 0..3 nodes with an arbitrary (also out-of-range) function result (bounded, group hash.clean_bucket.*), for a bucket array of any size",
    "cstl_hash_mul: IEEE-754 binary32 semantics as implemented by CBMC's float encoding / cvc5 FP theory; floorf is CBMC's model",
    HIST_ASSUME])
_p('C19', 'proof', 'DESIGN.md 5/C19',
   [HIST_ASSUME, CALLBACK_ASSUME, SIZE_ASSUME, LIBC_ASSUME, REALLOC_NOTE,
    "cstl_clean_bucket is replaced by its flat contract (stamp of the cleaned bucket set, no other stamp changes, bucket array in the frame) when the array-level functions are verified; that contract is checked against the real body only on chains of bounded length (group hash.clean_bucket, labelled bounded)",
    "'relocates the contents of at most three buckets' is proved as: at most three calls of cstl_clean_bucket find a dirty bucket per keyed operation; that one such call relocates only the chain it detached is the bounded chain-level check"])
_p('C20', 'proof', 'DESIGN.md 5/C20',
   [FENCE_ASSUME,
    "for two-argument functions the other argument is a well-stamped empty object; 'objects moved only with the provided functions never abort' is the normal-return reachability (vacuity canary) of every C05/C14 contract on well-stamped inputs",
    "functions that only re-stamp (init, guarded_ptr_set, the destination of guarded_ptr_copy) and cstl_array_size (reads len only) are outside the property's wording"])
_p('C14', 'proof', 'DESIGN.md 5/C14',
   [HIST_ASSUME, FENCE_ASSUME, SIZE_ASSUME,
    "element size is a constant per instance (view: 4 bytes, newly requested: 8 bytes); element counts up to 2^32 for existing views, unrestricted for requests",
    "the shared-pointer functions are verified with their bodies inlined (no assumed contracts); views are: empty, internal buffer, external buffer; slice/unslice targets are the object itself or an empty object"])

NORM = NORMALISE_TRUST
_p('C01', 'model_checking', 'DESIGN.md 5/C01',
   [BOUNDED_ASSUME, CALLBACK_ASSUME, HIST_ASSUME,
    "scope: every insertion sequence (hinted and unhinted alternating) of length <= 3 (thorough: <= 4) over keys {0,1,2} -- all BST shapes reachable that way, duplicates included -- each followed by find of every key, erase of every key (twice) and re-insert; plus 8-key trees in 2 (thorough: 4) insertion orders x 3 (8) erase orders; traversal and clear on the same trees",
    "step contracts (unbounded in the rest of the tree): __cstl_bintree_rotate on all 48 neighbourhood shapes, __cstl_bintree_erase on 51 shapes (successor at most 3 levels down the right subtree), cstl_bintree_insert on 337 descent neighbourhoods (from the root or a hint, paths of 0..3 nodes); no inductive argument for longer descents or for find: CBMC has no inductive heap predicates, whole operations are bounded only",
    STEP_ASSUME],
   [NORM])
_p('C02', 'model_checking', 'DESIGN.md 5/C02',
   [BOUNDED_ASSUME, CALLBACK_ASSUME, HIST_ASSUME,
    "scope: as C01 on the red-black tree; after every insert and erase: root black, no red-red, equal black count on every root-to-NULL path, parent back-links, cstl_rbtree_height == longest path <= 2*log2(n+1)",
    "step contracts (unbounded in the rest of the tree, sentinel objects stand for it): cstl_rbtree_fix_insertion (72 neighbourhood shapes), cstl_rbtree_fix_deletion (216 shapes), __cstl_bintree_rotate (48 shapes); the loops in cstl_rbtree_insert / __cstl_rbtree_erase that iterate the steps and the colour transfer at the head of __cstl_rbtree_erase are checked only inside the bounded scope",
    STEP_ASSUME],
   [NORM])
_p('C11', 'model_checking', 'DESIGN.md 5/C11',
   [BOUNDED_ASSUME, CALLBACK_ASSUME,
    "proved (unbounded, every count): linear find returns the first match / -1 (element sizes 1 and 4), reverse mirrors exactly (element size 1), binary search index arithmetic stays inside the array for arbitrary comparison outcomes; cstl_swap fast paths are executed inside these proofs",
    "bounded: all five sort selectors on every array of length <= 3 (thorough: <= 4) over a 3-letter alphabet, element sizes 1, 4, 12 (12: length <= 2 / 3); QUICK_R with every first pivot and two second pivots, later draws 0; termination of QUICK_R for adversarial rand() is not claimed",
    "binary search is also proved functionally for every count: sortedness is seen from the probe as zone boundaries lo <= hi (the probe is greater than every element below lo, equal to those in [lo,hi), smaller than those from hi on -- what a sorted array and a consistent total preorder give for every probe); the result lies in [lo,hi) iff lo < hi, else -1. (Quantified sortedness itself is beyond the installed solvers, DESIGN.md section 2.)"],
   [NORM])
_p('C12', 'model_checking', 'DESIGN.md 5/C12',
   [BOUNDED_ASSUME, STEP_ASSUME, CALLBACK_ASSUME, HIST_ASSUME,
    "step contracts (unbounded in the rest of the ring): __cstl_dlist_insert (between distinct neighbours / into the empty ring / after the last node), __cstl_dlist_erase (distinct neighbours / only node)",
    "bounded: lists of every length 0..5; every position for insert/erase; concat/swap over all length pairs (0..5 x 0..3); foreach in both directions with every stop position with and without removal of the visited element; sort/find for every key assignment over {0,1,2} to lists of length <= 3 (thorough <= 4)"],
   [NORM])

_p('C07', 'model_checking', 'DESIGN.md 5/C07',
   [BOUNDED_ASSUME, STEP_ASSUME, CALLBACK_ASSUME, HIST_ASSUME,
    "proved: cstl_fls for all 2^64 inputs; the index arithmetic of cstl_heap_find for every id < 2^32-1 (no undefined shift) and its descent for every id and every step (floor(log2(id+1)) steps, direction of step j = bit depth-j of id+1; loop of <= 32 iterations closed by unwinding)",
    "step: cstl_heap_promote_child on explicit distinct node objects, 48 neighbour combinations",
    "bounded: every key sequence of length <= 4 (thorough: 5) over {0,1,2} pushed then popped; mixed push/pop with pops at every size 1..8; clear on sizes 0..7 with poisoning and freeing callbacks; after every operation: completeness (level-order numbers exactly 0..size-1), parent links, heap order, membership, size, get == a maximal element"],
   [NORM])
_p('C13', 'model_checking', 'DESIGN.md 5/C13',
   [BOUNDED_ASSUME, STEP_ASSUME, CALLBACK_ASSUME, HIST_ASSUME,
    "step contracts: __cstl_slist_insert_after (middle / after the tail / into the empty list / after the head sentinel), __cstl_slist_erase_after (middle / the tail node / first of several / the only node)",
    "bounded: lists of length 0..5; after EVERY operation the full tail invariant is checked and a push_back of a spare element must become the last node; insert/erase at every position, reverse, concat/swap over 0..5 x 0..3, clear, foreach with every stop position, sort for all key assignments over {0,1,2} up to length 3 (thorough 4); pop_front on empty lists",
    "cstl_slist_concat(l, l) is outside the domain (precondition)"],
   [NORM])

CHAIN = "chain-level (element-level) statements are bounded: tables of 1..4 buckets, 4 resident elements with keys 0,1,3,1 (duplicates), hash functions k%m, (k/2)%m, 0; every pair of geometries for a pending rehash, interleaved keyed operations, a second resize while pending, forced rehash, shrink_to_fit, swap"
_p('C03', 'model_checking', 'DESIGN.md 5/C03',
   [BOUNDED_ASSUME, CALLBACK_ASSUME, HIST_ASSUME, CHAIN, SIZE_ASSUME,
    "proved (unbounded, every table size): the flat invariant and the sweep invariant of the bucket array are preserved by get_bucket / rehash / resize / shrink_to_fit / set_capacity; every bucket-array access is in bounds; get_bucket hands back the bucket the effective (pending, if any) function selects and has relocated the bucket the key selects under the old geometry; settled tables have every bucket clean; one step of a lookup / erase (cstl_hash_find_visit / cstl_hash_erase_visit), cstl_hash_swap, and (thorough tier) cstl_hash_insert at array level; cstl_clean_bucket is replaced by its flat contract there (bounded-checked on chains of 0..3 nodes)"],
   [NORM])
_p('C04', 'model_checking', 'DESIGN.md 5/C04',
   [BOUNDED_ASSUME, CALLBACK_ASSUME, CHAIN,
    "proved (unbounded): the bucket walk of foreach / foreach_const / clear hands every bucket of the span max(count, pending count) to the chain walk, in order, and stops at the first non-zero result; clear leaves the table equal to its initialised state. The chain walk itself (each element of a bucket exactly once, successor read before the callback) is bounded"],
   [NORM])
_p('C08', 'model_checking', 'DESIGN.md 5/C08',
   [BOUNDED_ASSUME, CALLBACK_ASSUME, HIST_ASSUME,
    "proved (unbounded in the map's size, every key, every stored pointer): cstl_map_insert / find / erase / erase_iterator / init and the element comparison cstl_map_node_cmp against per-key contracts of the tree functions they call (cstl_bintree_find, cstl_rbtree_insert as specification stubs, __cstl_rbtree_erase as a replaced contract). Those tree contracts restate C01 (find returns the held element comparing equal or NULL; insert links exactly the element given; erase unlinks exactly the node given) and are ASSUMED in these proofs; the tree code itself is checked against C01/C02 by step contracts and bounded groups only. cstl_map_clear is proved over the two tracked entries (tree clear as a stub), for arbitrary populations it is bounded",
    "scope: every script with <= 3 (thorough: 4) state-changing operations over {insert K[i], insert through a second key pointer K2[i], erase by key, erase by iterator, find} on keys 0..2, any number of non-changing operations interleaved (their no-op-ness is checked bit for bit); clear (with and without callback) on maps from every insertion sequence of <= 4 keys; drain in all 24 erase orders; allocation failure at every insert (scripted allocator)",
    "map nodes come from a static arena (or real malloc with --memory-leak-check in the clear groups); red-black and ordering invariants of the underlying tree are re-checked after every operation"],
   [NORM])
_p('C15', 'model_checking', 'DESIGN.md 5/C15',
   [BOUNDED_ASSUME, CALLBACK_ASSUME,
    "bounded per container, with callbacks that poison / overwrite / free the element: dlist (lengths 0..5), slist (0..5), bintree and rbtree (every tree from insertion sequences of length <= 3, thorough 4), heap (sizes 0..7), map (<= 4 keys); container equals a freshly initialised one afterwards and is refilled",
    "proved: cstl_vector_clear runs the destructor once per element downwards and releases the storage"],
   [NORM])
_p('C16', 'model_checking', 'DESIGN.md 5/C16',
   [LIBC_ASSUME, REALLOC_NOTE, SIZE_ASSUME, BOUNDED_ASSUME,
    "proved under --malloc-may-fail --malloc-fail-null (every allocation may fail independently, so every subset): vector set_capacity/reserve/shrink_to_fit/resize, string __resize/prep_insert, hash set_capacity/resize/shrink_to_fit, unique_ptr_alloc, shared_ptr_alloc (+ closed scenario with leak audit), array alloc/set: the operation completes or fails the documented way and the representation invariant (= precondition of every other contract) holds afterwards",
    "bounded: map insert with the allocation of each insert failing in turn (scripted allocator): -1, end iterator, state bit-identical, later operations work, no leak"],
   [NORM])

_p('C10', 'model_checking', 'DESIGN.md 5/C10',
   [BOUNDED_ASSUME, LIBC_ASSUME, REALLOC_NOTE, SIZE_ASSUME, HIST_ASSUME,
    "proved (unbounded, both character widths, empty string / string with storage; vector.c inlined down to realloc): substr_prep (abort iff pos >= size, count truncated for every count), __resize (n characters + NUL or abort, prefix kept), prep_insert (abort iff pos > size; size + len or abort; prefix kept, suffix shifted; memmove ranges inside the storage), erase (prefix kept, suffix shifted down, terminated), at, str; memcpy/memmove are contract models",
    "bounded: reference-string comparison after every edit of every scenario over base words \"\", \"a\", \"ab\" (thorough: + \"bab\") x inserted words x every position: set, insert (string / C string / repeated char), append, substr and erase with counts 0,1,2,SIZE_MAX-1,SIZE_MAX, resize down/up, swap, clear; find_ch/find_str/compare against reference implementations of the C library functions",
    "proved on top of those: insert_str_n, insert_ch, resize (public), insert (header wrapper) with prep_insert / __resize / insert_str_n replaced by their proved contracts and the fill / padding loops closed by loop contracts; in replaced position 'the same block or a new block' is abstracted to 'a new block carrying the same ghost-index facts' (weaker knowledge of the contents; sound for callers that hold no other pointer into the old block: sources must not alias the string, as documented); thorough tier: insert_str_n with every callee inlined down to realloc (no assumed contract at all); substr with everything inlined",
    "strlen / wcslen are contract models (result indexes a NUL inside the live object, no NUL before it for a ghost index); strings of size 0 that own storage are included in every family 'with storage'",
    "append / append_ch / append_str(_n) / insert_str / set_str / find / compare wrappers and find_ch / find_str have no unbounded contract of their own; they are covered by the bounded group"],
   [])

NOT_APPLICABLE = {
    'C06': "every-thread-interleaving refcounting: CBMC's contract instrumentation (DFCC) is sequential; a function contract relates one call's pre- and post-state and cannot quantify over schedules. The sequential bookkeeping is covered by C05.",
    'C18': "header/link usability is a property of preprocessor and linker configurations (symbol multiplicity across translation units); no function contract expresses it and goto-cc is not the project's linker.",
}

BTECH = "contract-based verification with CBMC 6.11: the representation invariant and abstract view asserted around the real operations on concretely enumerated small structures (bounded, --unwinding-assertions), DFCC step contracts where built"
TEXT = {
    'C10': ("Unbounded contracts on the string primitives every edit goes through and, built on them modularly, on insert_str_n / insert_ch / insert / resize / substr (length clamping for every count, exact growth or abort, NUL termination, prefix/suffix preservation by ghost indices, all memmove/memcpy ranges inside the storage for every length) for both character widths, plus a bounded reference-string comparison of whole edit sequences including the SIZE_MAX counts and the C-library agreement of find/compare.", "contract-based verification with CBMC 6.11: DFCC function contracts on _string.c with vector.c inlined; bounded reference-string checks"),
    'C03': ("Array level proved for every table size (sweep invariant with a ghost bucket index, all accesses in bounds, completion only after the last old bucket); element level bounded: after every operation of every scenario in scope each live element is found by key, erased ones are not, same-key elements are offered at most once, size matches, every node sits in a bucket allowed by the old or pending geometry.", BTECH + "; DFCC function + loop contracts for the bucket array"),
    'C04': ("Bucket coverage of foreach/foreach_const/clear proved for every table state incl. pending grow/shrink; per-element exactly-once, early stop, erasing callback and reuse after clear are bounded over ten table states.", BTECH + "; DFCC function + loop contracts for the bucket walk"),
    'C08': ("Proved for every key and map size: the map's own logic (one entry per key, stored pointers never replaced, iterator results, -1 on allocation failure with nothing changed, erase releases exactly the removed node, the user's comparison gets the user's private pointer) against assumed per-key contracts of the tree. Bounded: a reference model (present / stored key / stored value per key) is compared with the map after every operation of every script in scope, including duplicate inserts through a different key pointer, erase by iterator, clear with leak / double-free / write-after-free audit.", BTECH + '; DFCC function contracts on map.c with the tree functions replaced by (assumed) per-key contracts'),
    'C15': ("Bounded per container: the clear callback poisons (or frees) each element; the harness asserts exactly one call per contained element, none for anything else, no access afterwards (CBMC pointer checks / ASan in the native run), container equal to a fresh one and reusable.", BTECH),
    'C16': ("Every allocating operation is verified under CBMC's malloc-may-fail mode, where each allocation fails independently, so all failure subsets are covered by one proof per operation: documented failure behaviour, state unchanged, invariant intact, nothing freed twice or leaked (frees clauses, was_freed, leak audit in the closed scenario); map insert by scripted failures.", "contract-based deductive verification: CBMC 6.11 DFCC contracts under --malloc-may-fail; bounded scripted-allocator groups for the map"),
    'C07': ("cstl_fls and the heap's index arithmetic are proved for all inputs; the exchange step promote_child is proved on every neighbourhood; push/pop/get/clear are checked against a multiset model with completeness, heap order and back-links re-established by an independent walker after every operation on all heaps in the stated scope.", BTECH),
    'C13': ("Step contracts prove that insert_after/erase_after relink exactly the named nodes and move the tail pointer exactly when the last node is touched; bounded checks compare every list of length 0..5 with a reference sequence after every public operation and verify each time that push_back appends after the true last element.", BTECH),
    'C01': ("Bounded whole-operation contract checks: CBMC executes the real insert/find/erase/foreach/clear of bintree.c and rbtree.c on every tree in the stated scope and an independent walker re-establishes 'exactly the inserted-minus-erased elements, in order, each linked once, parent links consistent, size equal' after every operation; find/erase results are checked against the membership view; traversal bracket structure, order and early stop are checked at every visit index. Nothing is proved beyond the scope.", BTECH),
    'C02': ("Bounded: after every insert and erase on every red-black tree in scope the walker checks root black, no red-red, equal black height on all paths, back-links, and the 2*log2(n+1) height bound through the real cstl_rbtree_height. Nothing is proved beyond the scope.", BTECH),
    'C11': ("Unbounded proofs for linear find, reverse, binary search (index arithmetic for arbitrary comparison outcomes, and the functional result on sorted arrays in zone form) by loop contracts with ghost indices instead of quantifiers; bounded checks for the five sort selectors, binary search results and the vector wrappers on every small array over a 3-letter alphabet with byte-identity tags and canaries.", "contract-based verification with CBMC 6.11: DFCC function + loop contracts (find, reverse, search arithmetic); bounded contract checks for the sorts"),
    'C12': ("Step contracts prove the ring primitives relink exactly the named nodes for every surrounding ring; bounded checks compare the ring with a reference sequence in both directions after every public operation on all lists of length 0..5.", BTECH),
    'C05': ("Per-operation contracts over symbolic reference counters (1 <= hard <= soft < 2^31): each operation changes (hard, soft) by exactly the change in the number of owners/references, the clear callback runs once on live memory and the memory is freed exactly at hard 1->0, the block exactly at soft 1->0 (frees clauses + was_freed), lock yields an owner iff hard >= 1, unique <=> soft == 1; plus a loop-free closed scenario with leak audit under every allocation-failure subset.",
            "contract-based deductive verification: CBMC 6.11 DFCC function contracts with frees clauses on memory.c, SAT back end"),
    'C09': ("Unbounded contract proofs for every request size (all 2^64 values) per element-size instance: capacity >= size, storage is one live allocation of >= (capacity+1)*size bytes computed in 128 bits, bytes in range survive reallocation, reserve is a quiet no-op and resize aborts when growth is impossible, at aborts iff index >= size, constructors/destructors run exactly once per entering/leaving element in order (loop contracts).",
            "contract-based deductive verification: CBMC 6.11 DFCC function + loop contracts on vector.c, SAT back end"),
    'C19': ("Unbounded array-level contracts in every table state including 'rehash pending': a satisfiable resize request lands (effective geometry == request, load == size/n), on allocation failure nothing changes; each keyed access cleans at most three dirty buckets, advances the sweep by >= 1 bucket or completes it, completion installs exactly the requested geometry; without a pending rehash the current hash function is consulted exactly once with (k, count).",
            "contract-based deductive verification: CBMC 6.11 DFCC function + loop contracts on hash.c (ghost-index sweep invariant), SAT back end"),
    'C20': ("For every public smart-pointer / array function and argument position: requires the object in that position to be a stray copy (self != own address, any pointer value), ensures false with an empty frame, i.e. the call never returns and writes nothing before aborting; abort reachability is checked so the proof is not vacuous.",
            "contract-based deductive verification: CBMC 6.11 DFCC contracts 'requires stray / ensures false / assigns nothing', SAT back end"),
    'C14': ("Unbounded contracts on every well-formed view (any offset/length/element count, any owner counts): at returns an address inside the live buffer iff index < size, slice aborts iff end < beg or off+end passes the buffer (128-bit arithmetic), new views hold their own owner count, alloc/set yield a view from offset 0 or an empty object under every allocation-failure subset and for unrepresentable nm*sz, release hands an external buffer only to its sole user.",
            "contract-based deductive verification: CBMC 6.11 DFCC function contracts on array.c with memory.c inlined, SAT back end"),
    'C17': ("Unbounded contract proofs (all keys, all table sizes): cstl_hash_div and cstl_hash_mul return < m; __cstl_hash_get_bucket returns a bucket inside [0,count) or aborts for an arbitrary caller hash; every other bucket-array access in hash.c is index-bounded by loop contracts / flat contracts; the per-node selection inside the relocation sweep (cstl_clean_bucket) goes through the same fail-stop function and is checked on chains of bounded length only.",
            "contract-based deductive verification: CBMC 6.11 DFCC function + loop contracts, SAT and cvc5 back ends"),
}


def manifest():
    checks = []
    for pid in sorted(PROPS):
        m = PROPS[pid]
        text, tech = TEXT[pid]
        checks.append({
            'property_id': pid,
            'quick_cmd': './vf check %s --tier quick' % pid,
            'thorough_cmd': './vf check %s --tier thorough' % pid,
            'evidence_file': 'evidence/%s.json' % pid,
            'replay_cmd_template': './vf replay {path}',
            'engine': 'cbmc-dfcc',
            'level_claimed': {'category': m['level'], 'text': text, 'design_ref': m['design']},
            'level_note': '; '.join(m['assumptions'] + m['trusted']),
            'technique': tech,
        })
    na = []
    import json, os
    ids = [json.loads(l)['id'] for l in open(os.path.join(os.path.dirname(os.path.dirname(os.path.abspath(__file__))), 'properties.jsonl'))]
    for pid in ids:
        if pid not in PROPS:
            na.append({'property_id': pid, 'reason': NOT_APPLICABLE.get(pid, 'not claimed yet: the contracts for this property are still being built (see DESIGN.md section 5); nothing is asserted about it')})
    return {
        'version': 1,
        'setup_cmd': './vf setup',
        'hooks': {
            'guard': 'LIBCSTL_VERIF',
            'enable': 'no hooks are needed: contracts live in /verif/spec and include /repo/src/*.c textually; the guard name is reserved and unused',
            'baseline_off_cmd': 'make -C /repo test',
            'source_commits': [],
            'add_only': True,
        },
        'engines': [
            {'name': 'cbmc-dfcc', 'path': 'vf', 'serves_properties': sorted(PROPS),
             'kind_free_text': 'CBMC 6.11 code contracts (goto-instrument --dfcc, --enforce-contract / --replace-call-with-contract / --apply-loop-contracts), SAT back end; cvc5 for quantified / floating-point obligations; bounded groups use --unwind with --unwinding-assertions and are labelled bounded'},
        ],
        'checks': checks,
        'not_applicable': na,
        'notes': 'Generated by `./vf manifest` from vflib/props.py. Exit codes: 0 held, 1 VIOLATION, 2 undecided (infrastructure: timeout, tool error, vacuity guard).',
    }
