"""Groups for bintree / rbtree (C01, C02, C15): bounded whole-operation checks."""
from .run import Group


def groups():
    S = 'spec/s_tree.c'
    src = [('bintree.c', {'normalise': True}), ('rbtree.c', {'normalise': True})]
    G = []
    for rb in (0, 1):
        name = 'rbtree' if rb else 'bintree'
        props = ['C01', 'C02'] if rb else ['C01']
        base = ['-DVF_RB'] if rb else []
        for first in range(3):
            for ln, tier in ((3, 'quick'), (4, 'thorough')):
                # the length-4 scope is split by the second key as well (one rbtree group took > 25 min)
                for second in ((None,) if ln == 3 else (0, 1, 2)):
                    sfx = '' if second is None else '.second%d' % second
                    sd = [] if second is None else ['-DVF_SECOND=%d' % second]
                    G.append(Group('%s.b.seq.len%d.first%d%s' % (name, ln, first, sfx), props, 'B', S, 'h_b_seq', sources=src,
                                   defines=base + ['-DVF_B=1', '-DVF_LEN=%d' % ln, '-DVF_FIRST=%d' % first] + sd, unwind=90, tier=tier, timeout=2400,
                                   what='%s: every insertion sequence (hinted and unhinted) of length <= %d over keys {0,1,2} starting with key %d%s; invariant after every insert; find of every key (result and parent output); erase of every key (twice) + re-insert' % (name, ln, first, '' if second is None else ', second key %d' % second),
                                   scope='trees of <= %d nodes (+1 re-inserted), keys {0,1,2}, duplicates included' % ln, replay=True))
                G.append(Group('%s.b.walk.len%d.first%d' % (name, ln, first), ['C01', 'C15'], 'B', S, 'h_b_walk', sources=src,
                               defines=base + ['-DVF_B=3', '-DVF_LEN=%d' % ln, '-DVF_FIRST=%d' % first], unwind=90, tier=tier, timeout=1500,
                               what='%s: forward/reverse traversal bracket structure, order and early stop at every visit; clear hands over each element once and leaves an empty reusable tree; trees from sequences of length <= %d starting with key %d' % (name, ln, first),
                               scope='trees of <= %d nodes, keys {0,1,2}' % ln, replay=True))
        G.append(Group('%s.b.big' % name, props, 'B', S, 'h_b_big', sources=src, defines=base + ['-DVF_B=2', '-DVF_BIG_OSTEP=3', '-DVF_BIG_ESTEP=3'], unwind=40, timeout=1500,
                       what='%s: 2 insertion orders of 8 keys (balanced with a duplicate, heavy duplicates) x 3 erase orders, invariant after every step' % name,
                       scope='trees of <= 9 nodes', replay=True))
        G.append(Group('%s.b.big.all' % name, props, 'B', S, 'h_b_big', sources=src, defines=base + ['-DVF_B=2'], unwind=40, timeout=3000, tier='thorough',
                       what='%s: 4 insertion orders of 8 keys (balanced, ascending, descending, heavy duplicates) x 8 erase orders, invariant after every step' % name,
                       scope='trees of <= 9 nodes', replay=True))
    return G
