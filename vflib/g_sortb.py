"""Bounded sort/search groups (C11)."""
from .run import Group


def groups():
    S = 'spec/s_sortb.c'
    src = [('array.c', {'normalise': True}), ('vector.c', {'normalise': True}), 'memory.c']
    G = []
    for esz in (1, 4, 12):
        for ln, tier in (((2, 'quick'), (3, 'thorough')) if esz == 12 else ((3, 'quick'), (4, 'thorough'))):
            G.append(Group('rawarray.b.sort.e%d.len%d' % (esz, ln), ['C11'], 'B', S, 'h_b_sort', sources=src,
                           defines=['-DVF_ESZ=%d' % esz, '-DVF_LEN=%d' % ln], unwind=100, tier=tier, timeout=2400, replay=True,
                           what='every array of length <= %d over {0,1,2}, element size %d, all five selectors (QUICK_R with every first pivot and two second pivots): sorted, byte-identical permutation, canaries intact; then search/find for every probe and reverse' % (ln, esz),
                           scope='arrays of length <= %d over a 3-letter alphabet; scripted rand()' % ln))
        G.append(Group('rawarray.b.vector.e%d' % esz, ['C11'], 'B', S, 'h_b_vector', sources=src, defines=['-DVF_ESZ=%d' % esz], unwind=100,
                       timeout=1200, replay=True, what='vector sort/search/find/reverse wrappers on every vector of length <= 3 over {0,1,2}',
                       scope='vectors of length <= 3'))
    return G
