"""Groups for /repo/src/slist.c (C13, list part of C15): spec/s_slist.c."""
from .run import Group


def groups():
    S = 'spec/s_slist.c'
    src = [('slist.c', {'normalise': True})]
    G = []
    steps = {
        1: ('__cstl_slist_insert_after', 'insert after a node in the middle: the tail pointer and the head link stay'),
        2: ('__cstl_slist_insert_after', 'insert after the tail node: sl->t moves to the new node'),
        3: ('__cstl_slist_insert_after', 'insert into the empty list (the head sentinel is the tail): explicit object'),
        4: ('__cstl_slist_insert_after', 'insert after the head sentinel of a non-empty list: the tail stays'),
        5: ('__cstl_slist_erase_after', 'erase a node in the middle: the tail stays, the erased node is not written'),
        6: ('__cstl_slist_erase_after', 'erase the tail node: sl->t moves back to the predecessor'),
        7: ('__cstl_slist_erase_after', 'erase the first of at least two nodes through the head sentinel: the tail stays'),
        8: ('__cstl_slist_erase_after', 'erase the only node: the list equals a freshly initialised one (explicit object)'),
    }
    for k, (fn, txt) in steps.items():
        G.append(Group('slist.step%d' % k, ['C13'], 'S', S, 'h_step', enforce=None if k in (3, 8) else fn, sources=src,
                       defines=['-DVF_STEP=%d' % k],
                       what='chain primitive %s: %s; exact relinking, count, frame = the touched links, the tail pointer and count' % (fn, txt)))
    for k, (fn, txt) in {1: ('cstl_slist_concat', 'concat on chain neighbourhoods of 0, 1, 2 and >= 3 nodes each (unknown middle as a sentinel, any count): the source chain follows the destination\'s last node, the tail becomes the source\'s last, source left empty with its own sentinel as tail'),
                         2: ('cstl_slist_swap', 'swap on chain neighbourhoods of 0, 1, 2 and >= 3 nodes each: chains, counts and offsets exchanged, the tail of an emptied side is its OWN head sentinel')}.items():
        G.append(Group('slist.step2.%s' % fn[11:], ['C13'], 'S', S, 'h_step2', sources=src, defines=['-DVF_STEP2=%d' % k], unwind=6, functions=[fn], what=txt, covers=['end']))
    G.append(Group('slist.wrap', ['C13'], 'P', S, 'h_wrap', sources=src, defines=['-DVF_G_wrap'], replace=['__cstl_slist_insert_after', '__cstl_slist_erase_after'],
                   functions=['cstl_slist_push_front', 'cstl_slist_push_back', 'cstl_slist_insert_after', 'cstl_slist_erase_after', 'cstl_slist_pop_front', 'cstl_slist_front', 'cstl_slist_back'],
                   what='the loop-free public wrappers hand the chain primitives exactly the right predecessor and node (push_back: the tail pointer; element/node conversion by the list\'s offset); pop_front/front/back of an empty list return NULL and touch nothing; any list size'))
    common = 'representation invariant (count==0 <=> t==&h <=> h.n==NULL, t->n==NULL, t is the last node reached, count nodes), ' \
             'traversal == reference sequence, front/back/size agree, and a spare push_back lands after the true last element, after every operation: '
    B = {
        'slist.b.basic': (1, 'h_b_basic', ['C13'], 16,
                          'push_front, push_back, pop_front until empty (+ refill of the emptied list), insert_after at every position, '
                          'erase_after at every position (the last node: tail moves) followed by push_back, reverse (twice) followed by push_back / pop_front'),
        'slist.b.concat': (2, 'h_b_pair', ['C13'], 16,
                           'concat over all pairs of lengths 0..5 x 0..3: destination = a then b, source empty and usable (push_back), push_back after concat'),
        'slist.b.swap': (2, 'h_b_pair', ['C13'], 16,
                         'swap over all pairs of lengths 0..5 x 0..3: contents exchanged (an empty side gets its own sentinel as tail), '
                         'push_back into both, swap back, pop_front'),
        'slist.b.visit': (5, 'h_b_visit', ['C13', 'C15'], 16,
                          'clear with a poisoning callback (exactly once per element, list elements only, no element touched after its callback, '
                          'list equals a freshly initialised one, refill, second clear hands over nothing); foreach with every stop position '
                          '(returns the first non-zero result, visits in order, stops there), foreach that only records; list unchanged by foreach'),
        'slist.b.sort': (3, 'h_b_sort', ['C13'], 90,
                         'sort for every assignment of keys {0,1,2} to lists of length 0..3: ordered, stable, permutation of the same elements, tail correct, push_back after sort'),
        'slist.b.pop_empty': (4, 'h_b_pop_empty', ['C13'], 16,
                              'pop_front on the EMPTY list (freshly initialised; emptied by 1 or 2 pops): returns NULL as documented, list stays empty and usable'),
    }
    for gid, (k, h, props, unw, txt) in B.items():
        # pop_empty: on a fully concrete run cbmc 6.11 leaves the (constant-folded) pointer checks that follow a failed
        # NULL dereference in the status UNKNOWN, which the runner counts as "no verdict"; the fault-localisation
        # verifier settles every status (same FAILURE set), so that the group gets the verdict `fail` with a replay.
        G.append(Group(gid, props, 'B', S, h, sources=src, defines=['-DVF_B=%d' % k] + (['-DVF_SORTLEN=3'] if k == 3 else []) +
                       ({'slist.b.concat': ['-DVF_PAIR_OP=1'], 'slist.b.swap': ['-DVF_PAIR_OP=2']}.get(gid, [])), unwind=unw,
                       cbmc=['--localize-faults'] if k == 4 else [],
                       what=common + txt,
                       scope='lists of length 0..5 (second list 0..3; sort: 0..3, keys from {0,1,2}; pop_empty: 0..2); element pointers concrete',
                       replay=True, timeout=900))
    G.append(Group('slist.b.sort.len4', ['C13'], 'B', S, 'h_b_sort', sources=src, defines=['-DVF_B=3', '-DVF_SORTLEN=4'], unwind=90, tier='thorough',
                   what=common + 'sort for every assignment of keys {0,1,2} to lists of length 0..4', scope='lists of length 0..4, keys {0,1,2}',
                   replay=True, timeout=1800, weight=3))
    return G
