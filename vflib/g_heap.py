"""Groups for /repo/src/heap.c (C07, heap part of C15); spec/s_heap.c."""
from .run import Group


def groups():
    S = 'spec/s_heap.c'
    src = ['common.c', ('bintree.c', {'normalise': True}), ('heap.c', {'normalise': True})]
    G = []
    # P: cstl_fls, all 2^64 inputs; the binary-search loop has 6 iterations and is closed by unwinding
    G.append(Group('heap.fls', ['C07'], 'P', S, 'h_fls', enforce='cstl_fls', sources=src, defines=['-DVF_FLS'], unwind=8, replay=True,
                   what='cstl_fls(x) for every 64-bit x: -1 for 0, else the index r < 64 of the highest set bit (x >> r == 1); '
                        'this is what cstl_heap_find uses to locate a node from its level-order number',
                   scope='all inputs; loop (6 iterations) closed by unwinding with unwinding assertion'))
    # P: arithmetic of the node lookup.  FINDING on the pinned tree: `1 << cstl_fls(loc)` is a signed int shift, undefined for
    # loc >= 2^31 (heap size >= 2^31); the obligation cstl_heap_find.overflow.1 fails with id = 2147483647 (replay: UBSan).
    G.append(Group('heap.find.arith', ['C07'], 'P', S, 'h_find', sources=src, defines=['-DVF_FIND'], unwind=8, replay=True, malloc_fail=False,
                   what='cstl_heap_find: turning a level-order number into the descent bit mask is defined for every number 0..2^32-2 '
                        '(no signed overflow / undefined shift), which is what "located from the size alone" needs at every size',
                   scope='all node numbers id with id + 1 <= UINT_MAX; empty tree, so only the index arithmetic is exercised'))
    G.append(Group('heap.get', ['C07'], 'P', S, 'h_get', sources=src, defines=['-DVF_FIND'], unwind=4, replay=True, malloc_fail=False, functions=['cstl_heap_get'],
                   what='cstl_heap_get: the element embedding the root node for every node offset, NULL exactly for an empty heap, nothing written'))
    G.append(Group('heap.find.path', ['C07'], 'P', S, 'h_find_path', sources=src, defines=['-DVF_FIND'], unwind=36, replay=True, malloc_fail=False, timeout=900,
                   what='cstl_heap_find, every level-order number id < 2^32-1 and every step j of the descent: floor(log2(id+1)) steps, step j goes left/right as bit (depth-j) '
                        'of id+1 says (recording tree; j arbitrary so every step is checked): "the next free slot and the last element are located from the size alone"',
                   scope='all numbers, all steps; the loop (<= 32 iterations) is closed by unwinding with unwinding assertion'))
    # S: the only relinking primitive, explicit neighbourhood
    G.append(Group('heap.step.promote', ['C07'], 'S', S, 'h_step', sources=src, defines=['-DVF_STEP=1'], unwind=4, replay=True,
                   what='cstl_heap_promote_child on an explicit neighbourhood (grandparent or root slot, parent, child as left or right child, '
                        'sibling, the child\'s two children; every combination of present/absent neighbours = 48 cases): child and parent exchange '
                        'positions, all six neighbour links consistent both ways, nothing else changes',
                   scope='distinct node objects; the rest of the tree is represented by sentinel nodes that must stay untouched'))
    chk = ('after every operation the tree is walked by level-order number: positions present = {0..size-1} (complete tree), parent links, '
           'heap order on every edge, elements = reference model, size, get = a maximal element; ')
    G.append(Group('heap.b.seq', ['C07'], 'B', S, 'h_b_seq', sources=src, defines=['-DVF_B=1', '-DVF_LENLO=0', '-DVF_LENHI=3'], unwind=30, replay=True, timeout=900,
                   what=chk + 'every key sequence of length 0..3 over {0,1,2}: push all, pop all (popped element in the model, maximal, removed exactly), pop/get on the empty heap = NULL',
                   scope='40 key sequences of length 0..3, keys {0,1,2}; element pointers concrete'))
    # one CBMC run costs about 0.06 s of symbolic execution per heap operation (all values concrete, no solver work),
    # and the runner makes three passes (check, trace, vacuity): 27 key sequences per group keep a group under ~2 minutes
    for k in range(3):
        G.append(Group('heap.b.seq.len4.%d' % k, ['C07'], 'B', S, 'h_b_seq', sources=src, unwind=30, replay=True, timeout=900,
                       defines=['-DVF_B=1', '-DVF_LENLO=4', '-DVF_LENHI=4', '-DVF_CODELO=%d' % (27 * k), '-DVF_CODEHI=%d' % (27 * (k + 1))],
                       what=chk + 'key sequences of length 4 over {0,1,2} whose last key is %d (27 of 81): push all, pop all, pop/get on the empty heap = NULL' % k,
                       scope='27 of the 81 key sequences of length 4, keys {0,1,2}'))
    for k in range(9):
        G.append(Group('heap.b.seq.len5.%d' % k, ['C07'], 'B', S, 'h_b_seq', sources=src, tier='thorough', unwind=30, replay=True, timeout=1800,
                       defines=['-DVF_B=1', '-DVF_LENLO=5', '-DVF_LENHI=5', '-DVF_CODELO=%d' % (27 * k), '-DVF_CODEHI=%d' % (27 * (k + 1))],
                       what=chk + 'key sequences of length 5 over {0,1,2} whose last two keys are %d,%d (27 of 243): push all, pop all, pop/get on the empty heap = NULL' % (k % 3, k // 3),
                       scope='27 of the 243 key sequences of length 5, keys {0,1,2}'))
    G.append(Group('heap.b.mix', ['C07'], 'B', S, 'h_b_mix', sources=src, defines=['-DVF_B=2', '-DVF_CMP_MAG'], unwind=12, replay=True, timeout=900,
                   what=chk + 'interleavings: for s = 1..7 build size s, three pop/push pairs at size s (slot reuse), drain to s/2, push/push/pop ramp to size 7 '
                        '(pops at sizes 2..8), drain, pop on empty; keys 3,1,4,1,5,9,2,6,... mod 4',
                   scope='heaps of size 0..8, pops at every size 1..8; keys from {0,1,2,3} with ties'))
    G.append(Group('heap.b.clear', ['C07', 'C15'], 'B', S, 'h_b_clear', sources=src, defines=['-DVF_B=3'], unwind=12, replay=True, timeout=900,
                   what='cstl_heap_clear on heaps of size 0..7 with a poisoning callback (links overwritten): callback count == size, each element exactly once, '
                        'nothing else handed over; heap equals a freshly initialised one (root NULL, size 0), get/pop NULL; refill 3, pop 1, clear again (2 callbacks)',
                   scope='heaps of size 0..7'))
    G.append(Group('heap.b.clear.free', ['C07', 'C15'], 'B', S, 'h_b_clear', sources=src, defines=['-DVF_B=3', '-DVF_CLR_FREE'], unwind=12, replay=True, timeout=900,
                   what='as heap.b.clear, but the elements are malloc\'ed and the callback frees the element it is given: any access to an element after its '
                        'callback returned is a use-after-free (CBMC pointer checks; ASan in the native replay)',
                   scope='heaps of size 0..7, elements on the C heap'))
    return G
