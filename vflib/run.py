"""Build / instrument / solve one obligation group and parse CBMC's answer."""
import json
import os
import re
import resource
import shutil
import subprocess
import time

from . import prep

REPO = os.environ.get('VF_REPO', '/repo')
VERIF = os.path.dirname(os.path.dirname(os.path.abspath(__file__)))
MEM_LIMIT_KB = 14 * 1024 * 1024
import threading
N_SLOTS = int(os.environ.get('VF_SLOTS', '0')) or (os.cpu_count() or 4)


class Slots(object):
    """Weighted admission control: a solver process of weight w occupies w of N_SLOTS units
    (heavy groups need ~10 GB each; the weight keeps total memory below the machine's)."""

    def __init__(self, n):
        self.n = n
        self.free = n
        self.cv = threading.Condition()

    def acquire(self, w):
        w = min(w, self.n)
        with self.cv:
            while self.free < w:
                self.cv.wait()
            self.free -= w
        return w

    def release(self, w):
        with self.cv:
            self.free += w
            self.cv.notify_all()


SOLVER_SLOTS = Slots(N_SLOTS)


class Infra(Exception):
    """Infrastructure problem: undecided, never a violation (exit 2)."""
    pass


def _limits():
    resource.setrlimit(resource.RLIMIT_AS, (MEM_LIMIT_KB * 1024, MEM_LIMIT_KB * 1024))
    os.setsid()


CHILDREN = set()


def kill_children(*_a):
    for pid in list(CHILDREN):
        try:
            os.killpg(pid, 9)
        except Exception:
            pass
    if _a:
        os._exit(2)


import signal
import atexit
atexit.register(kill_children)
try:
    signal.signal(signal.SIGTERM, kill_children)
    signal.signal(signal.SIGINT, kill_children)
except Exception:
    pass


def sh(cmd, cwd, timeout, log, holder=None):
    t0 = time.time()
    with open(log, 'ab') as lf:
        lf.write(('\n$ ' + ' '.join(cmd) + '\n').encode())
        lf.flush()
        try:
            p = subprocess.Popen(cmd, cwd=cwd, stdout=subprocess.PIPE, stderr=lf, preexec_fn=_limits)
            CHILDREN.add(p.pid)
            if holder is not None:
                holder.append(p.pid)
            try:
                out, _ = p.communicate(timeout=timeout)
            except subprocess.TimeoutExpired:
                try:
                    os.killpg(p.pid, 9)
                except Exception:
                    p.kill()
                p.communicate()
                raise Infra("timeout after %ds: %s" % (timeout, ' '.join(cmd[:3])))
        finally:
            CHILDREN.discard(p.pid)
    return p.returncode, out, time.time() - t0


class Group(object):
    """One obligation group = one CBMC problem.

    kind      'P' proof (DFCC contract, all loops closed by contract or width-bounded unwinding),
              'S' step contract (P on a symbolic neighbourhood),
              'B' bounded whole-operation check on concretely enumerated scopes.
    """

    def __init__(self, gid, props, kind, spec, harness, enforce=None, replace=(), sources=(),
                 loops=None, normalise=False, defines=(), cbmc=(), solver='sat', timeout=600,
                 tier='quick', malloc_fail=None, expect_min=1, must_have=(), covers=('end',),
                 what='', scope=None, replay=None, unwind=None, gen=None, functions=(),
                 instances=None, apply_loops=None, extra_instrument=(), object_bits=None, cover_solver=False, shards=None, weight=1, thorough_for=(), refuter=None):
        self.gid = gid
        self.props = list(props)
        self.kind = kind
        self.spec = spec
        self.harness = harness
        self.enforce = enforce
        self.replace = list(replace)
        self.sources = list(sources)
        self.loops = loops
        self.normalise = normalise
        self.defines = list(defines)
        self.cbmc = list(cbmc)
        self.solver = solver
        self.timeout = timeout
        self.tier = tier
        self.malloc_fail = (kind != 'B') if malloc_fail is None else malloc_fail
        self.expect_min = expect_min
        self.must_have = list(must_have)
        self.covers = list(covers)
        self.what = what
        self.scope = scope
        self.replay = replay
        self.unwind = unwind
        self.gen = gen
        self.functions = list(functions) if functions else ([enforce] if enforce else [])
        self.instances = instances
        has_lc = bool(loops) or any((not isinstance(x, str)) and x[1].get('loops') for x in self.sources)
        self.apply_loops = has_lc if apply_loops is None else apply_loops
        self.extra_instrument = list(extra_instrument)
        self.object_bits = (12 if kind == 'B' else None) if object_bits is None else object_bits
        self.cover_solver = cover_solver
        self.weight = weight
        self.thorough_for = list(thorough_for)   # properties for which this group runs in the thorough tier only
        self.shards = 1 if shards is None else shards
        # portfolio: a second back end ('kissat') runs alongside the prover and may REFUTE (find a counterexample)
        # where the prover would time out; the first definitive verdict stands (hash.mul: cvc5 proves in minutes,
        # SAT does not, but on a broken variant kissat finds the failing key while cvc5 times out)
        self.refuter = refuter


class GroupResult(object):
    def __init__(self, g):
        self.group = g
        self.status = 'undecided'     # 'pass' | 'fail' | 'undecided'
        self.reason = ''
        self.obligations = []         # (name, status, description)
        self.failed = []              # dicts: name, description, trace, inputs
        self.covers = {}              # label -> satisfied?
        self.cover_total = 0
        self.cover_sat = 0
        self.solver_s = 0.0
        self.wall_s = 0.0
        self.prep = []
        self.cmds = []
        self.n_instances = None
        self.native = None


def _parse_cbmc_json(raw):
    try:
        return json.loads(raw.decode('utf-8', 'replace'))
    except Exception:
        # truncated output (crash): try to salvage
        txt = raw.decode('utf-8', 'replace').rstrip().rstrip(',')
        try:
            return json.loads(txt + ']')
        except Exception:
            raise Infra("unparseable cbmc output")


def _value_of(v):
    if not isinstance(v, dict):
        return None
    if 'data' in v:
        return v['data']
    if 'members' in v:
        return {m.get('name'): _value_of(m.get('value')) for m in v['members']}
    if 'elements' in v:
        return [_value_of(e.get('value')) for e in v['elements']]
    return v.get('name')


def extract_inputs(trace):
    """Witness variables (vf_w_*) as assigned in the trace: first value wins for
    pre-state witnesses, which are assigned exactly once in the harness."""
    vals = {}
    for st in trace:
        if st.get('stepType') != 'assignment':
            continue
        lhs = st.get('lhs', '')
        if st.get('sourceLocation', {}).get('function', '') in ('__CPROVER_initialize', '') or st.get('hidden'):
            continue
        if lhs.startswith('vf_w_') and '$' not in lhs and '#' not in lhs:
            key = lhs[len('vf_w_'):]
            if key not in vals:
                vals[key] = _value_of(st.get('value'))
    return vals


def compact_trace(trace, limit=400):
    out = []
    for st in trace:
        t = st.get('stepType')
        loc = st.get('sourceLocation', {})
        where = "%s:%s %s" % (os.path.basename(loc.get('file', '?')), loc.get('line', '?'), loc.get('function', ''))
        if t == 'assignment':
            lhs = st.get('lhs', '')
            if lhs.startswith('__CPROVER') or 'cprover_contracts' in loc.get('file', '') or st.get('hidden'):
                continue
            out.append("%s: %s = %s" % (where, lhs, json.dumps(_value_of(st.get('value')))))
        elif t == 'function-call':
            out.append("%s: call %s" % (where, st.get('function', {}).get('displayName', '?')))
        elif t == 'failure':
            out.append("%s: FAILURE %s: %s" % (where, st.get('property', ''), st.get('reason', '')))
    if len(out) > limit:
        out = out[:limit // 2] + ['... (%d steps elided) ...' % (len(out) - limit)] + out[-limit // 2:]
    return out


def run_group(g, scratch_root, log_dir, keep=False):
    """Run one group.  Returns GroupResult; raises nothing (infrastructure problems are
    reported as status 'undecided')."""
    r = GroupResult(g)
    t0 = time.time()
    sdir = os.path.join(scratch_root, re.sub(r'[^A-Za-z0-9_.-]', '_', g.gid))
    os.makedirs(sdir, exist_ok=True)
    log = os.path.join(log_dir, re.sub(r'[^A-Za-z0-9_.-]', '_', g.gid) + '.log')
    try:
        open(log, 'w').close()
        _run_group(g, r, sdir, log)
    except Infra as e:
        r.status = 'undecided'
        r.reason = str(e)
    except prep.PrepError as e:
        r.status = 'undecided'
        r.reason = 'source preparation: ' + str(e)
    finally:
        r.wall_s = time.time() - t0
        if not keep:
            shutil.rmtree(sdir, ignore_errors=True)
    return r


def _run_group(g, r, sdir, log):
    srcdir = os.path.join(sdir, 'src')
    os.makedirs(srcdir, exist_ok=True)
    # 1. sources: every .c of /repo/src is made available (copied verbatim) so that
    #    #include "x.c" always resolves to this run's working tree; the listed ones get
    #    loop contracts / cast normalisation.
    listed = {}
    for s in g.sources:
        if isinstance(s, str):
            listed[s] = {}
        else:
            listed[s[0]] = s[1]
    for fn in sorted(os.listdir(os.path.join(REPO, 'src'))):
        if not fn.endswith('.c'):
            continue
        opt = listed.get(fn)
        if opt is None:
            shutil.copyfile(os.path.join(REPO, 'src', fn), os.path.join(srcdir, fn))
        else:
            lc = opt.get('loops', g.loops if fn in listed and len(listed) == 1 else None)
            lcp = os.path.join(VERIF, lc) if lc else None
            info = prep.prepare(REPO, srcdir, fn, lc_path=lcp, normalise=opt.get('normalise', g.normalise))
            r.prep.append(info)
    # 2. instance generator (B groups): python callable writing a header into sdir
    if g.gen is not None:
        r.n_instances = g.gen(sdir)
    # 3./4. compile and instrument (twice: the checked binary, and the vacuity binary with canaries)
    def build(tag, extra):
        gb1 = os.path.join(sdir, 'a%s.gb' % tag)
        gb2 = os.path.join(sdir, 'b%s.gb' % tag)
        cc = ['goto-cc', '--function', g.harness, '-I', srcdir, '-I', sdir, '-I', os.path.join(REPO, 'include'),
              '-I', os.path.join(VERIF, 'spec'), '-std=c11', '-D_POSIX_C_SOURCE=199309L'] + g.defines + extra + \
             [os.path.join(VERIF, g.spec), '-o', gb1]
        rc, out, dt = sh(cc, sdir, 300, log)
        if not tag:
            r.cmds.append(' '.join(cc))
        if rc != 0:
            raise Infra("goto-cc failed (rc=%d), see %s" % (rc, log))
        if g.enforce or g.replace or g.apply_loops:
            gi = ['goto-instrument', '--dfcc', g.harness]
            if g.enforce:
                gi += ['--enforce-contract', g.enforce]
            for f in g.replace:
                gi += ['--replace-call-with-contract', f]
            if g.apply_loops:
                gi += ['--apply-loop-contracts']
            gi += g.extra_instrument
            gi += [gb1, gb2]
            rc, out, dt = sh(gi, sdir, 600, log)
            if not tag:
                r.cmds.append(' '.join(gi))
            if rc != 0:
                raise Infra("goto-instrument failed (rc=%d), see %s" % (rc, log))
        else:
            gb2 = gb1
        return gb2
    # one binary carries both the obligations and the vacuity canaries (assertions do not constrain
    # paths in CBMC, so a canary that is expected to FAIL does not influence the other verdicts)
    gb2 = build('', ['-DVF_CANARY'] if g.covers else [])
    # 5. solve
    base = ['cbmc', gb2, '--json-ui']
    if g.malloc_fail:
        base += ['--malloc-may-fail', '--malloc-fail-null']
    else:
        base += ['--no-malloc-may-fail']
    if g.unwind is not None:
        base += ['--unwind', str(g.unwind), '--unwinding-assertions']
    if g.object_bits:
        base += ['--object-bits', str(g.object_bits)]
    base += g.cbmc
    chk = list(base)      # first pass without traces: the vacuity canaries are expected to fail and their
                          # traces are useless (and can run to gigabytes); real failures are re-run with --trace
    if g.solver == 'cvc5':
        chk += ['--cvc5']
    elif g.solver == 'z3':
        chk += ['--z3']
    elif (g.solver == 'kissat' and os.environ.get('VF_SAT') != 'minisat') or (g.solver == 'sat' and g.kind != 'B' and os.environ.get('VF_SAT') == 'kissat'):
        # kissat (external, non-incremental) is chosen per group where measured faster than the built-in
        # incremental minisat2: single hard UNSAT instances (hash.mul: 14 s against no result in 900 s;
        # array.alloc 54 s against 460 s; hash.get_bucket 31 s against 25 min).  Groups with many shards /
        # many failing canaries are faster on the incremental built-in solver (string.prep_insert: 3x).
        chk += ['--external-sat-solver', 'kissat']
    r.cmds.append(' '.join(chk))
    shard_args = [[]]
    if g.shards > 1:
        rc, out, dt = sh(['cbmc', gb2, '--show-properties', '--json-ui'] + [a for a in base[3:] if a.startswith('--unwind') or a.isdigit()],
                         sdir, 300, log)
        names = []
        for x in _parse_cbmc_json(out):
            if isinstance(x, dict) and 'properties' in x:
                names = [p['name'] for p in x['properties']]
        if names:
            shard_args = []
            for k in range(g.shards):
                part = names[k::g.shards]
                if part:
                    a = []
                    for n in part:
                        a += ['--property', n]
                    shard_args.append(a)
    results = []

    text_ui = True     # first pass always in text UI: --json-ui prints a trace for every failed property, also for the
                       # vacuity canaries (which are expected to fail), and those traces can run to gigabytes
    want_trace = (g.kind != 'B')

    def parse_text(out):
        res = []
        for ln in out.decode('utf-8', 'replace').splitlines():
            m = re.match(r'^\[([^\]\s]+)\] (.*): (SUCCESS|FAILURE|UNKNOWN|ERROR)\s*$', ln)
            if m:
                res.append({'property': m.group(1), 'description': re.sub(r'^(file \S+ )?line \d+ ', '', m.group(2)), 'status': m.group(3)})
        return res

    def one_portfolio(extra):
        """prover (g.solver) and refuter side by side; first definitive verdict wins, the other is killed"""
        import threading
        cmd_p = [a for a in chk if a not in ('--json-ui', '--trace')] + extra
        cmd_r = [a for a in cmd_p if a not in ('--cvc5', '--z3')] + ['--external-sat-solver', g.refuter]
        done = threading.Event()
        box = {}
        pids = {'p': [], 'r': []}

        def run(tag, cmd):
            try:
                rc, out, dt = sh(cmd, sdir, g.timeout, log, pids[tag])
                res = parse_text(out) if rc in (0, 10) else []
                real_fail = any(p['status'] == 'FAILURE' and 'VF-CANARY' not in p['description'] for p in res)
                all_decided = bool(res) and all(p['status'] in ('SUCCESS', 'FAILURE') for p in res)
                # the refuter's word counts only for a refutation or a complete verdict
                if (tag == 'p' and all_decided) or (tag == 'r' and (real_fail or all_decided)):
                    if not done.is_set():
                        box['res'] = (res, dt, tag)
                        done.set()
            except Infra:
                pass
        w = SOLVER_SLOTS.acquire(g.weight + 1)
        try:
            ts = [threading.Thread(target=run, args=('p', cmd_p)), threading.Thread(target=run, args=('r', cmd_r))]
            for t in ts:
                t.start()
            while any(t.is_alive() for t in ts) and not done.is_set():
                done.wait(1.0)
            for tag in ('p', 'r'):
                for pid in pids[tag]:
                    try:
                        os.killpg(pid, 9)
                    except Exception:
                        pass
            for t in ts:
                t.join()
        finally:
            SOLVER_SLOTS.release(w)
        if 'res' not in box:
            raise Infra("neither the prover (%s) nor the refuter (%s) reached a verdict within %ds" % (g.solver, g.refuter, g.timeout))
        res, dt, tag = box['res']
        r.reason = 'verdict by ' + (g.solver if tag == 'p' else 'refuter ' + g.refuter)
        return res, dt

    def one(extra):
        if g.refuter:
            return one_portfolio(extra)
        w = SOLVER_SLOTS.acquire(g.weight)
        try:
            cmd = [a for a in chk if a not in ('--json-ui', '--trace')] if text_ui else chk
            rc, out, dt = sh(cmd + extra, sdir, g.timeout, log)
        finally:
            SOLVER_SLOTS.release(w)
        if rc not in (0, 10):
            raise Infra("cbmc exited with %d, see %s" % (rc, log))
        if text_ui:
            res = []
            for ln in out.decode('utf-8', 'replace').splitlines():
                m = re.match(r'^\[([^\]\s]+)\] (.*): (SUCCESS|FAILURE|UNKNOWN|ERROR)\s*$', ln)
                if m:
                    res.append({'property': m.group(1), 'description': re.sub(r'^(file \S+ )?line \d+ ', '', m.group(2)), 'status': m.group(3)})
                if re.search(r'ignoring (forall|exists)', ln):
                    raise Infra("quantifier ignored by back end: " + ln[:120])
            if not res:
                raise Infra("no result section in cbmc output")
            return res, dt
        doc = _parse_cbmc_json(out)
        res = None
        for x in doc:
            if isinstance(x, dict):
                if 'result' in x:
                    res = x['result']
                mt = x.get('messageText', '')
                if x.get('messageType') in ('WARNING', 'ERROR') and re.search(r'ignoring (forall|exists)', mt):
                    raise Infra("quantifier ignored by back end: " + mt[:120])
                if x.get('messageType') == 'ERROR':
                    raise Infra("cbmc error: " + mt[:200])
        if res is None:
            raise Infra("no result section in cbmc output")
        return res, dt
    if len(shard_args) == 1:
        res, dt = one(shard_args[0])
        results += res
        r.solver_s += dt
    else:
        import concurrent.futures
        with concurrent.futures.ThreadPoolExecutor(max_workers=len(shard_args)) as ex:
            for res, dt in ex.map(one, shard_args):
                results += res
                r.solver_s += dt
    # second pass: traces (witness inputs) for real failures only
    real_failed = [p.get('property') for p in results
                   if p.get('status') == 'FAILURE' and 'VF-CANARY' not in p.get('description', '')]
    if real_failed and want_trace:
        targs = ['--trace']
        for n in real_failed[:4]:
            targs += ['--property', n]

        def trace_pass(binary):
            w = SOLVER_SLOTS.acquire(g.weight)
            try:
                tchk = [binary if a == gb2 else a for a in chk]
                if g.refuter and r.reason.startswith('verdict by refuter'):
                    tchk = [a for a in tchk if a not in ('--cvc5', '--z3')] + ['--external-sat-solver', g.refuter]
                rc, out, dt = sh(tchk + targs, sdir, g.timeout, log)
            finally:
                SOLVER_SLOTS.release(w)
            r.solver_s += dt
            traced = {}
            for x in _parse_cbmc_json(out):
                if isinstance(x, dict) and 'result' in x:
                    for p in x['result']:
                        if p.get('status') == 'FAILURE' and p.get('trace'):
                            traced[p.get('property')] = p['trace']
            return traced
        traced = {}
        if g.replay:
            # prefer a counterexample with small named inputs (the native replay rebuilds the state through
            # the public API); obligations that fail only for large inputs keep the unconstrained one below
            try:
                traced = trace_pass(build('s', (['-DVF_CANARY'] if g.covers else []) + ['-DVF_SMALL_WITNESS=6']))
            except Infra:
                traced = {}
        try:
            missing = [n for n in real_failed[:4] if n not in traced]
            if missing:
                for k, v in trace_pass(gb2).items():
                    traced.setdefault(k, v)
        except Infra:
            pass      # the verdicts stand; the replay file then carries no inputs
        for p in results:
            if p.get('property') in traced:
                p['trace'] = traced[p.get('property')]
    bad = []
    end_ok, n_end, abort_ok = True, 0, False
    for p in results:
        st = p.get('status')
        d = p.get('description', '')
        if 'VF-CANARY' in d:
            # vacuity canary: must be reachable, i.e. the assertion must FAIL
            fn_ = (p.get('property') or '').split('.')[0]
            if fn_ not in (g.harness, 'abort'):
                continue
            reached = (st == 'FAILURE')
            r.cover_total += 1
            r.cover_sat += 1 if reached else 0
            if 'abort reachable' in d:
                abort_ok = abort_ok or reached
            else:
                n_end += 1
                end_ok = end_ok and reached
                if not reached:
                    r.covers['unreached: ' + d] = False
            continue
        r.obligations.append((p.get('property'), st, d))
        if st == 'FAILURE':
            tr = p.get('trace', [])
            r.failed.append({'name': p.get('property'), 'description': d,
                             'inputs': extract_inputs(tr), 'trace': compact_trace(tr),
                             'location': p.get('sourceLocation', {})})
        elif st != 'SUCCESS':
            bad.append(str(p.get('property')) + ':' + str(st))
    # a FAILURE verdict comes with a counterexample and stands on its own; obligations left
    # without verdict matter only when nothing failed (then the group is undecided)
    if bad and not r.failed:
        raise Infra("obligations without verdict (solver unknown/error): " + ', '.join(bad[:5]))
    names = [o[0] for o in r.obligations]
    if len(names) < g.expect_min:
        raise Infra("only %d obligations generated, expected at least %d" % (len(names), g.expect_min))
    for pat in g.must_have:
        if not any(re.search(pat, n) for n in names):
            raise Infra("expected obligation missing: " + pat)
    r.status = 'fail' if r.failed else 'pass'
    if g.covers:
        r.covers['end'] = end_ok and n_end > 0
        r.covers['abort'] = abort_ok
        if r.status == 'pass':
            for c in g.covers:
                if not r.covers.get(c, False):
                    r.status = 'undecided'
                    r.reason = "vacuity guard: canary '%s' not reachable (%s)" % (
                        c, '; '.join(k for k in r.covers if k.startswith('unreached'))[:200])
