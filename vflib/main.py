import concurrent.futures
import json
import os
import re
import shutil
import subprocess
import sys
import tempfile
import time

from . import run as R
from .run import VERIF, REPO

OUT = os.environ.get('VF_OUT') or os.path.join(VERIF, 'out')
EVID = os.path.join(OUT, 'evidence') if os.environ.get('VF_OUT') else os.path.join(VERIF, 'evidence')
KNOWN = os.path.join(VERIF, 'known_findings.txt')
NCPU = int(os.environ.get('VF_JOBS', '0')) or 2 * (os.cpu_count() or 4)


def load_groups():
    from . import groups
    return groups.all_groups()


def load_known():
    """known_findings.txt lines:
         open: property=<id> group=<gid-regex> obligation=<name-regex> <what fails>
         fixed: property=<id> <commit> <what failed>
    Only `open:` entries suppress anything."""
    res = []
    if not os.path.exists(KNOWN):
        return res
    for ln in open(KNOWN):
        ln = ln.strip()
        if not ln.startswith('open:'):
            continue
        m = re.match(r'open:\s+property=(\S+)\s+group=(\S+)\s+obligation=(\S+)\s+(.*)$', ln)
        if m:
            res.append({'property': m.group(1), 'group': m.group(2), 'obligation': m.group(3), 'text': m.group(4)})
    return res


def tool_versions():
    v = {}
    for t, a in (('cbmc', ['--version']), ('cvc5', ['--version'])):
        try:
            o = subprocess.run([t] + a, stdout=subprocess.PIPE, stderr=subprocess.STDOUT, timeout=20).stdout.decode()
            v[t] = o.strip().splitlines()[0]
        except Exception as e:
            v[t] = 'missing (%s)' % e
    return v


# library sources a spec TU does not #include itself but needs at link time
NATIVE_EXTRA = {'s_vector.c': ['array.c', 'memory.c', 'common.c'], 's_string.c': ['array.c', 'memory.c', 'common.c'],
                's_heap.c': [], 's_map.c': [], 's_mapc.c': ['rbtree.c', 'bintree.c', 'common.c']}


def native_replay(g, inputs, workdir):
    """Compile the spec TU natively (-DVF_NATIVE) against /repo's real sources and run the
    harness on the extracted inputs.  Returns dict(cmd, reproduced, observation)."""
    if not g.replay:
        return {'cmd': None, 'reproduced': False, 'observation': 'no native replay driver for this group'}
    exe = os.path.join(workdir, 'replay_' + re.sub(r'[^A-Za-z0-9_]', '_', g.gid))
    cc = ['gcc', '-g', '-O0', '-std=gnu11', '-fsanitize=address,undefined', '-fno-sanitize-recover=undefined',
          '-fno-omit-frame-pointer',
          '-DVF_NATIVE', '-D_GNU_SOURCE', '-I', os.path.join(REPO, 'src'), '-I', os.path.join(REPO, 'include'),
          '-I', os.path.join(VERIF, 'spec')] + g.defines + \
         [os.path.join(VERIF, g.spec), os.path.join(VERIF, 'replay', 'native_main.c')] + \
         [os.path.join(REPO, 'src', f) for f in NATIVE_EXTRA.get(os.path.basename(g.spec), [])] + ['-o', exe, '-lm']
    p = subprocess.run(cc, stdout=subprocess.PIPE, stderr=subprocess.STDOUT)
    if p.returncode != 0:
        return {'cmd': ' '.join(cc), 'reproduced': False,
                'observation': 'native driver failed to build: ' + p.stdout.decode('utf-8', 'replace')[-600:]}
    args = [exe, g.harness] + ["%s=%s" % (k, _native_val(v)) for k, v in sorted(inputs.items()) if _native_val(v) is not None]
    env = dict(os.environ)
    env['ASAN_OPTIONS'] = 'handle_segv=0:handle_sigfpe=0:handle_abort=0:detect_leaks=0:allocator_may_return_null=1:max_allocation_size_mb=4096'
    try:
        q = subprocess.run(args, stdout=subprocess.PIPE, stderr=subprocess.STDOUT, timeout=120, env=env)
        out = q.stdout.decode('utf-8', 'replace')
        rc = q.returncode
    except subprocess.TimeoutExpired:
        out, rc = 'timeout', -1
    repro = ('NATIVE-CHECK-FAILED' in out) or ('AddressSanitizer' in out) or ('runtime error' in out) \
        or ('NATIVE-SIGNAL' in out) or (rc < 0 and rc != -1)
    if 'NATIVE-PRECONDITION-NOT-MET' in out:
        repro = False
    return {'cmd': ' '.join(args), 'reproduced': bool(repro), 'exit': rc, 'observation': out[-2500:]}


def _native_val(v):
    if isinstance(v, bool):
        return '1' if v else '0'
    if isinstance(v, (int,)):
        return str(v)
    if isinstance(v, str):
        s = v.strip()
        if re.match(r'^-?\d+$', s):
            return s
        if re.match(r'^-?\d+[uUlL]+$', s):
            return re.sub(r'[uUlL]+$', '', s)
        if s in ('TRUE', 'true'):
            return '1'
        if s in ('FALSE', 'false'):
            return '0'
        m = re.match(r'^\(?.*\)?\s*(-?\d+)$', s)
        if m:
            return m.group(1)
    return None


def write_replay(prop, r, workdir):
    g = r.group
    d = os.path.join(OUT, 'replay', prop)
    os.makedirs(d, exist_ok=True)
    path = os.path.join(d, re.sub(r'[^A-Za-z0-9_.-]', '_', g.gid) + '.json')
    first = r.failed[0]
    nat = native_replay(g, first['inputs'], workdir) if (first['inputs'] or g.kind == 'B' or g.replay) else \
        {'cmd': None, 'reproduced': False, 'observation': 'the trace carries no named inputs'}
    doc = {
        'property': prop,
        'group': g.gid,
        'kind': g.kind,
        'what': g.what,
        'function_under_contract': g.enforce,
        'failed_obligations': [{'obligation': f['name'], 'description': f['description'],
                                'location': f['location'], 'inputs': f['inputs'], 'cbmc_trace': f['trace']}
                               for f in r.failed[:6]],
        'n_failed': len(r.failed),
        'verifier_cmds': r.cmds,
        'native_replay': nat,
    }
    with open(path, 'w') as f:
        json.dump(doc, f, indent=1)
    return path, nat


def cmd_check(prop, tier, only=None, keep=False, quiet=False):
    from . import props as P
    t0 = time.time()
    seed = int(os.environ.get('VERIF_SEED', '0') or 0)
    meta = P.PROPS.get(prop)
    if meta is None:
        print("unknown or unclaimed property " + prop)
        return 2
    groups = [g for g in load_groups() if prop in g.props and (tier == 'thorough' or (g.tier == 'quick' and prop not in g.thorough_for))]
    if only:
        groups = [g for g in groups if re.search(only, g.gid)]
    if not groups:
        print("no groups for " + prop)
        return 2
    scratch = tempfile.mkdtemp(prefix='vf.%s.' % prop)
    logs = os.path.join(OUT, 'logs', prop)
    shutil.rmtree(logs, ignore_errors=True)
    os.makedirs(logs, exist_ok=True)
    os.makedirs(EVID, exist_ok=True)
    results = []
    try:
        # longest first
        groups.sort(key=lambda g: -g.timeout)
        # bounded groups: the harness is first executed natively (ASan/UBSan) on the real code.  A
        # failure there is a demonstrated violation (the failing scenario ran on the code itself); CBMC
        # is then not needed for that group -- on defective code its symbolic execution of the same
        # scenarios may not even terminate (wild pointers), which would only give "undecided".
        pre = {}

        def prescreen(g):
            if g.kind == 'B' and g.replay:
                pre[g.gid] = native_replay(g, {}, scratch)
        with concurrent.futures.ThreadPoolExecutor(max_workers=8) as ex:
            list(ex.map(prescreen, groups))

        def run_or_pre(g):
            if pre.get(g.gid, {}).get('reproduced'):
                r = R.GroupResult(g)
                obs = pre[g.gid].get('observation', '')
                msgs = re.findall(r'NATIVE-CHECK-FAILED: (.*)', obs)
                what = msgs[0] if msgs else (re.findall(r'(NATIVE-SIGNAL.*|ERROR: AddressSanitizer[^\n]*|[^\n]*runtime error[^\n]*)', obs) or ['abnormal termination'])[0]
                r.status = 'fail'
                r.failed = [{'name': 'native.execution', 'description': 'bounded harness executed natively on the real code: ' + what[:300],
                             'inputs': {}, 'trace': obs[-1500:].splitlines(), 'location': {}}]
                r.native = {'ran': True, 'failed': True}
                r.reason = 'failed in native execution; CBMC not run'
                return r
            return R.run_group(g, scratch, logs, keep)
        with concurrent.futures.ThreadPoolExecutor(max_workers=NCPU) as ex:
            futs = [ex.submit(run_or_pre, g) for g in groups]
            for f in futs:
                results.append(f.result())
        # bounded groups: the same harness is also executed natively (ASan/UBSan) on the real code;
        # this measures the number of scenarios / assertion evaluations and cross-checks CBMC's model
        def nat(r):
            if r.group.kind == 'B' and r.group.replay and r.status == 'pass':
                n = pre.get(r.group.gid) or native_replay(r.group, {}, scratch)
                m = re.search(r'NATIVE-STATS: checks=(\d+) distinct_check_sites=(\d+) scenarios=(\d+) nontrivial_scenarios=(\d+)', n.get('observation', ''))
                r.native = {'ran': bool(m), 'failed': bool(n.get('reproduced'))}
                if m:
                    r.native.update({'checks': int(m.group(1)), 'sites': int(m.group(2)), 'scenarios': int(m.group(3)), 'nontrivial': int(m.group(4))})
                if n.get('reproduced'):
                    r.status = 'fail'
                    r.failed = [{'name': 'native.execution', 'description': 'the bounded harness fails when executed natively on the real code: ' + n.get('observation', '')[-300:],
                                 'inputs': {}, 'trace': [], 'location': {}}]
        with concurrent.futures.ThreadPoolExecutor(max_workers=8) as ex:
            list(ex.map(nat, results))
        known = [k for k in load_known() if k['property'] == prop]
        violations = []
        known_hits = []
        undecided = []
        for r in results:
            if r.status == 'undecided':
                undecided.append(r)
            elif r.status == 'fail':
                unlisted = []
                for f in r.failed:
                    hit = None
                    for k in known:
                        if re.search(k['group'], r.group.gid) and re.search(k['obligation'], f['name']):
                            hit = k
                    if hit:
                        known_hits.append((hit, r, f))
                    else:
                        unlisted.append(f)
                if unlisted:
                    r.failed = unlisted
                    violations.append(r)
        lines = []
        seen = set()
        for k, r, f in known_hits:
            key = (k['group'], k['obligation'])
            if key in seen:
                continue
            seen.add(key)
            lines.append("KNOWN-FINDING: property=%s %s [%s %s]" % (prop, k['text'], r.group.gid, f['name']))
        vio_docs = []
        for r in violations:
            path, nat = write_replay(prop, r, scratch)
            tail = '' if nat.get('reproduced') else ' no-failing-input-found'
            lines.append("VIOLATION property=%s replay=%s%s" % (prop, path, tail))
            vio_docs.append({'group': r.group.gid, 'obligations': [f['name'] for f in r.failed[:8]],
                             'replay': path, 'reproduced_natively': bool(nat.get('reproduced'))})
        for r in undecided:
            lines.append("UNDECIDED property=%s group=%s: %s" % (prop, r.group.gid, r.reason))
        ev = P.evidence(prop, meta, tier, seed, results, vio_docs, known_hits, time.time() - t0, tool_versions())
        with open(os.path.join(EVID, prop + '.json'), 'w') as f:
            json.dump(ev, f, indent=1)
        if not quiet:
            for r in sorted(results, key=lambda r: r.group.gid):
                ok = sum(1 for o in r.obligations if o[1] == 'SUCCESS')
                print("  [%s] %-44s %-9s %4d/%-4d obligations  %6.1fs  %s" % (
                    r.group.kind, r.group.gid, r.status, ok, len(r.obligations), r.wall_s, r.reason))
        for ln in lines:
            print(ln)
        if violations:
            return 1
        if undecided:
            return 2
        print("OK property=%s tier=%s groups=%d wall=%.1fs" % (prop, tier, len(results), time.time() - t0))
        return 0
    finally:
        if not keep:
            shutil.rmtree(scratch, ignore_errors=True)
        else:
            print("scratch kept at " + scratch)


def cmd_group(pattern, keep=False, tier='thorough'):
    groups = [g for g in load_groups() if re.search(pattern, g.gid)]
    scratch = tempfile.mkdtemp(prefix='vf.group.')
    logs = os.path.join(OUT, 'logs', '_group')
    os.makedirs(logs, exist_ok=True)
    rc = 0
    try:
        with concurrent.futures.ThreadPoolExecutor(max_workers=NCPU) as ex:
            futs = [ex.submit(R.run_group, g, scratch, logs, keep) for g in groups]
            for f in futs:
                r = f.result()
                ok = sum(1 for o in r.obligations if o[1] == 'SUCCESS')
                print("[%s] %s: %s %d/%d obligations, %.1fs (solver %.1fs) covers=%s %s" % (
                    r.group.kind, r.group.gid, r.status, ok, len(r.obligations), r.wall_s, r.solver_s,
                    {k: v for k, v in r.covers.items() if k in ('end', 'abort')}, r.reason))
                for fl in r.failed[:4]:
                    print("    FAILED %s: %s" % (fl['name'], fl['description'][:150]))
                    if fl['inputs']:
                        print("           inputs: %s" % json.dumps(fl['inputs'])[:300])
                if r.status != 'pass':
                    rc = 1
                if r.failed and os.environ.get('VF_TRACE'):
                    for ln in r.failed[0]['trace'][-60:]:
                        print("      " + ln[:200])
                if r.failed and os.environ.get('VF_REPLAY'):
                    print(json.dumps(native_replay(r.group, r.failed[0]['inputs'], scratch), indent=1))
    finally:
        if keep:
            print("scratch kept at " + scratch)
        else:
            shutil.rmtree(scratch, ignore_errors=True)
    return rc


def cmd_replay(path):
    doc = json.load(open(path))
    gid = doc['group']
    gs = [g for g in load_groups() if g.gid == gid]
    print("property=%s group=%s" % (doc['property'], gid))
    for f in doc['failed_obligations']:
        print("failed obligation: %s -- %s" % (f['obligation'], f['description']))
        print("  inputs: %s" % json.dumps(f['inputs']))
    if not gs:
        print("group no longer exists")
        return 2
    wd = tempfile.mkdtemp(prefix='vf.replay.')
    try:
        nat = native_replay(gs[0], doc['failed_obligations'][0]['inputs'], wd)
    finally:
        shutil.rmtree(wd, ignore_errors=True)
    print("native replay: %s" % nat.get('cmd'))
    print(nat.get('observation', ''))
    print("reproduced=%s" % nat.get('reproduced'))
    return 1 if nat.get('reproduced') else 0


def cmd_setup():
    ok = True
    for t in ('cbmc', 'goto-cc', 'goto-instrument', 'cvc5', 'gcc', 'python3'):
        p = shutil.which(t)
        print("%-16s %s" % (t, p or 'MISSING'))
        ok = ok and bool(p)
    import compileall
    compileall.compile_dir(os.path.join(VERIF, 'vflib'), quiet=1)
    os.makedirs(OUT, exist_ok=True)
    os.makedirs(EVID, exist_ok=True)
    n = len(load_groups())
    print("groups registered: %d" % n)
    return 0 if ok else 1


def main(argv):
    if not argv:
        print(__doc__ or 'usage: vf setup|check|group|replay|list')
        return 2
    c = argv[0]
    if c == 'setup':
        return cmd_setup()
    if c == 'check':
        prop = argv[1]
        tier = os.environ.get('VERIF_TIER', 'quick')
        only = None
        keep = False
        i = 2
        while i < len(argv):
            if argv[i] == '--tier':
                tier = argv[i + 1]
                i += 2
            elif argv[i] == '--only':
                only = argv[i + 1]
                i += 2
            elif argv[i] == '--keep':
                keep = True
                i += 1
            else:
                i += 1
        return cmd_check(prop, tier, only, keep)
    if c == 'group':
        return cmd_group(argv[1], keep='--keep' in argv)
    if c == 'replay':
        return cmd_replay(argv[1])
    if c == 'manifest':
        from . import props as P
        with open(os.path.join(VERIF, 'MANIFEST.json'), 'w') as f:
            json.dump(P.manifest(), f, indent=1)
        print("MANIFEST.json written")
        return 0
    if c == 'list':
        for g in load_groups():
            if len(argv) < 2 or argv[1] in g.props:
                print("%-44s %s %-8s %-8s %s" % (g.gid, g.kind, g.tier, ','.join(g.props), g.what[:80]))
        return 0
    print("unknown command " + c)
    return 2
