"""Step contracts for rotate / fix_insertion / fix_deletion (C01, C02)."""
from .run import Group


def groups():
    S = 'spec/s_rbstep.c'
    src = [('bintree.c', {'normalise': True}), ('rbtree.c', {'normalise': True})]
    G = []
    for k, (h, props, what) in {
            1: ('h_s_rotate', ['C01', 'C02'], '__cstl_bintree_rotate on every neighbourhood (both orientations, optional subtrees, under the root slot or either child slot): y replaces x, in-order sequence and all back-links preserved, opaque subtrees and everything above untouched'),
            2: ('h_s_fix_insertion', ['C02', 'C01'], 'cstl_rbtree_fix_insertion on every neighbourhood (both orientations, x inner/outer child, uncle absent/red/black, subtree heights 1..3): black counts unchanged, in-order sequence unchanged, red uncle => violation moves two levels up, black uncle => no violation left and the loop stops'),
            5: ('h_s_insert', ['C01'], 'cstl_bintree_insert on every descent neighbourhood (from the root slot or from a hint node placed anywhere; path of 0..3 nodes with every left/right pattern, the subtrees off the path opaque or absent; comparison results as the path prescribes, magnitudes 1..3, equal keys going right): the new node is linked in the free slot at the end of the descent, in-order place next to the last path node, nothing else written, size + 1'),
            4: ('h_s_erase', ['C01', 'C02'], '__cstl_bintree_erase on every neighbourhood (under the root slot or either child slot; no / left / right / both children; successor 1, 2 or 3 levels down the right subtree, with and without its own right child): the in-order sequence loses exactly the erased node, every back-link consistent, opaque subtrees and everything above untouched, size - 1, the given-up position reported'),
            3: ('h_s_fix_deletion', ['C02', 'C01'], 'cstl_rbtree_fix_deletion on every neighbourhood (both orientations, real node or stack stand-in, sibling black/red, nephews absent/black/red, heights 1..3): rotation cases restore the missing black node, recolour case moves the deficit to the parent; in-order sequence and back-links preserved')}.items():
        if k == 5:
            for lo, hi in ((0, 2), (3, 3)):
                G.append(Group('rbstep.insert.len%d_%d' % (lo, hi), props, 'S', S, h, sources=src, defines=['-DVF_S=5', '-DVF_INS_LO=%d' % lo, '-DVF_INS_HI=%d' % hi],
                               unwind=20, timeout=1800, object_bits=12, replay=False, what=what + ' [paths of %d..%d nodes]' % (lo, hi)))
            continue
        G.append(Group('rbstep.%s' % h[4:], props, 'S', S, h, sources=src, defines=['-DVF_S=%d' % k], unwind=20, timeout=1800, object_bits=12, replay=False,
                       what=what))
    G.append(Group('rbstep.swap.bintree', ['C01'], 'P', S, 'h_s_bt_swap', enforce='cstl_bintree_swap', sources=src, defines=['-DVF_S=6'],
                   what='swap of two binary tree objects: root, size, element offset, comparison function and private pointer all change hands'))
    G.append(Group('rbstep.swap.rbtree', ['C01', 'C02'], 'P', S, 'h_s_rb_swap', enforce='cstl_rbtree_swap', sources=src, defines=['-DVF_S=6'],
                   what='swap of two red-black tree objects: every field changes hands, both element offsets included (a handle with a stale colour offset breaks the red-black rules on the next insert)'))
    return G
