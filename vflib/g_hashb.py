"""Chain-level (element-level) bounded checks of the incrementally rehashed hash table:
spec/s_hashb.c executed on concrete small tables against a reference model (C03, C04, C19 part)."""
from .run import Group

S = 'spec/s_hashb.c'
SRC = [('hash.c', {'normalise': True})]
SCOPE = ('static pool of 6 elements, keys from {0,1,2,3} (two elements may share a key), 1..4 buckets, '
         'hash functions k%m, (k/2)%m and constant 0; element pointers concrete; allocation does not fail')
FN = {0: 'div', 1: 'half', 2: 'zero'}


def groups():
    G = []

    def b(gid, props, harness, defines, what, unwind=10, **kw):
        kw.setdefault('timeout', 900)
        kw.setdefault('weight', 2)      # the vacuity run of a group holds 1-2.5 GB
        G.append(Group(gid, props, 'B', S, harness, sources=SRC, defines=defines, unwind=unwind, malloc_fail=False,
                       what=what, scope=SCOPE, replay=True, **kw))

    for f in (0, 1, 2):
        for mm in (1, 2, 3):
            b('hashb.basic.%s.m%d' % (FN[f], mm), ['C03'], 'h_b_basic', ['-DVF_B=1', '-DVF_FSEL=%d' % f, '-DVF_MLO=%d' % mm, '-DVF_MHI=%d' % mm],
              'insert / find / erase with no rehash pending, table of %d bucket(s) hashed by %s, 7 key patterns of 0..4 elements incl. duplicates '
              '({}, {2}, {1,1}, {1,1,2}, {0,1,2}, {0,1,2,3}, {3,1,1,0}): reference-model check (chains + size + every live element found by key with a visit '
              'function accepting exactly it, a visit function accepting nothing is offered exactly the live elements with the key once each, NULL visit '
              'function returns a live element with the key or NULL iff none) after every operation; erase of a non-member carrying a member\'s key / '
              'another key, erase of an element inside a shared chain, double erase, re-insert, two elements under one key' % (mm, FN[f]))
    pend = ('four elements (keys 0,1,3,1) in a table of %d bucket(s) hashed by %s, resize to every (1..4 buckets) x (div, half) incl. the '
            'unchanged geometry, then every prefix (0..%d) of the keyed operations find / insert / erase / find; ')
    tail = ('; then the full reference-model check (its lookups drive the rehash to completion), installed geometry == most recent request, '
            'cstl_hash_load == size / requested buckets.  Every keyed operation is monitored white-box: <= 3 buckets go from dirty to clean, '
            'rh.clean advances by >= 1 or the rehash completes, complete within `count` keyed operations')
    names = {1: 'second resize to a third geometry while the first is pending', 2: 'resize back to the original geometry while pending', 3: 'forced rehash',
             4: 'shrink-to-fit', 5: 'swap with a second table'}

    def rh(gid, m1, f1s, vlo, vhi, smax, txt, **kw):
        b(gid, ['C03', 'C19'], 'h_b_rehash',
          ['-DVF_B=2', '-DVF_M1=%d' % m1, '-DVF_F1_LO=%d' % f1s[0], '-DVF_F1_HI=%d' % f1s[-1], '-DVF_VAR_LO=%d' % vlo, '-DVF_VAR_HI=%d' % vhi, '-DVF_SMAX=%d' % smax],
          (pend % (m1, ' or '.join(FN[f] for f in f1s), smax)) + txt + tail, **kw)

    for m1 in (1, 2, 3, 4):
        for f1 in (0, 1):
            rh('hashb.rehash.ops.m%d.%s' % (m1, FN[f1]), m1, [f1], 0, 0, min(4, m1 + 1), 'keyed operations only while the rehash is pending')
            rh('hashb.rehash.resize2.m%d.%s' % (m1, FN[f1]), m1, [f1], 1, 2, min(2, m1),
               'then a SECOND resize while the first is still pending (to a third geometry / back to the original one)')
            rh('hashb.rehash.misc.m%d.%s' % (m1, FN[f1]), m1, [f1], 3, 5, 1, 'then cstl_hash_rehash (forced) / cstl_hash_shrink_to_fit / cstl_hash_swap with a second table')
        for v in (1, 2, 3, 4, 5):
            rh('hashb.rehash.full.m%d.v%d' % (m1, v), m1, [0, 1], v, v, 4, 'then ' + names[v], tier='thorough', timeout=1800)
    for lo, hi in ((0, 4), (5, 9), (10, 14)):
        b('hashb.enum.s%d_%d' % (lo, hi), ['C04'] + (['C03'] if lo >= 10 else []), 'h_b_enum', ['-DVF_B=3', '-DVF_ST_LO=%d' % lo, '-DVF_ST_HI=%d' % hi] + (['-DVF_MAXB=6'] if lo >= 10 else []),
          'cstl_hash_foreach_const / cstl_hash_foreach / cstl_hash_clear in table states %d..%d of 15 (0 no rehash pending; 1-3, 9 grow pending with nothing / with '
          'elements already relocated into the new buckets; 4-6, 8 shrink pending, partly swept; 7 hash function changed; 8, 9 after insert / erase; 10-12 a second resize requested while the first is pending; 13 shrink_to_fit while a grow is pending; 14 more dirty buckets than elements): every live '
          'element visited exactly once, nothing else visited, early stop at every visit index returns the callback\'s value, foreach_const leaves the table '
          'untouched, foreach completes the rehash and tolerates a callback that erases and poisons the visited element, clear hands every live element to a '
          'poisoning callback once and leaves a table equal to a freshly initialised one that works again after resize(2, NULL) + insert + find' % (lo, hi), unwind=12)
    return G
