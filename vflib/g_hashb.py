"""Chain-level (element-level) bounded checks of the incrementally rehashed hash table:
spec/s_hashb.c executed on concrete small tables against a reference model (C03, C04, C19 part)."""
from .run import Group

S = 'spec/s_hashb.c'
SRC = [('hash.c', {'normalise': True})]
SCOPE = ('static pool of 6 elements, keys from {0,1,2,3} (two elements may share a key), 1..4 buckets, '
         'hash functions k%m, (k/2)%m and constant 0; element pointers concrete; allocation does not fail')
FN = {0: 'div', 1: 'half', 2: 'zero'}


def groups():
    G = []

    def b(gid, props, harness, defines, what, unwind=10, **kw):
        kw.setdefault('timeout', 900)
        G.append(Group(gid, props, 'B', S, harness, sources=SRC, defines=defines, unwind=unwind, malloc_fail=False,
                       what=what, scope=SCOPE, replay=True, **kw))

    for f in (0, 1, 2):
        b('hashb.basic.%s' % FN[f], ['C03'], 'h_b_basic', ['-DVF_B=1', '-DVF_FSEL=%d' % f],
          'insert / find / erase with no rehash pending, table of 1..3 buckets hashed by %s, 7 key patterns of 0..4 elements incl. duplicates: '
          'reference-model check (chains + size + every live element found by key, visit function offered exactly the live elements with the key, '
          'NULL visit function) after every operation; erase of a non-member with a member\'s key, double erase, re-insert' % FN[f])
    pend = ('four elements (keys 0,1,3,1) in a table of %d buckets hashed by div or half, resize to every (1..4 buckets) x (div, half) incl. the '
            'unchanged geometry, then every prefix (0..%d) of the keyed operations find / insert / erase / find; ')
    tail = ('; then the full reference-model check (its lookups drive the rehash to completion), installed geometry == most recent request, '
            'cstl_hash_load == size / requested buckets.  Every keyed operation is monitored white-box: <= 3 buckets go from dirty to clean, '
            'rh.clean advances by >= 1 or the rehash completes, complete within `count` keyed operations')
    for m1 in (1, 2, 3, 4):
        b('hashb.rehash.ops.m%d' % m1, ['C03', 'C19'], 'h_b_rehash', ['-DVF_B=2', '-DVF_M1=%d' % m1, '-DVF_VAR_LO=0', '-DVF_VAR_HI=0', '-DVF_SMAX=4'],
          (pend % (m1, 4)) + 'keyed operations only while the rehash is pending' + tail)
        b('hashb.rehash.resize2.m%d' % m1, ['C03', 'C19'], 'h_b_rehash', ['-DVF_B=2', '-DVF_M1=%d' % m1, '-DVF_VAR_LO=1', '-DVF_VAR_HI=2', '-DVF_SMAX=2'],
          (pend % (m1, 2)) + 'then a SECOND resize while the first is still pending (to a third geometry / back to the original one)' + tail)
        b('hashb.rehash.misc.m%d' % m1, ['C03', 'C19'], 'h_b_rehash', ['-DVF_B=2', '-DVF_M1=%d' % m1, '-DVF_VAR_LO=3', '-DVF_VAR_HI=5', '-DVF_SMAX=1'],
          (pend % (m1, 1)) + 'then cstl_hash_rehash (forced) / cstl_hash_shrink_to_fit / cstl_hash_swap with a second table' + tail)
        names = {1: 'second resize to a third geometry', 2: 'resize back to the original geometry', 3: 'forced rehash', 4: 'shrink-to-fit', 5: 'swap with a second table'}
        for v in (1, 2, 3, 4, 5):
            b('hashb.rehash.full.m%d.v%d' % (m1, v), ['C03', 'C19'], 'h_b_rehash',
              ['-DVF_B=2', '-DVF_M1=%d' % m1, '-DVF_VAR_LO=%d' % v, '-DVF_VAR_HI=%d' % v, '-DVF_SMAX=4'],
              (pend % (m1, 4)) + 'then ' + names[v] + tail, tier='thorough')
    for lo, hi in ((0, 4), (5, 9)):
        b('hashb.enum.s%d_%d' % (lo, hi), ['C04'], 'h_b_enum', ['-DVF_B=3', '-DVF_ST_LO=%d' % lo, '-DVF_ST_HI=%d' % hi],
          'cstl_hash_foreach_const / cstl_hash_foreach / cstl_hash_clear in table states %d..%d of 10 (0 no rehash pending; 1-3, 9 grow pending with nothing / with '
          'elements already relocated into the new buckets; 4-6, 8 shrink pending, partly swept; 7 hash function changed; 8, 9 after insert / erase): every live '
          'element visited exactly once, nothing else visited, early stop at every visit index returns the callback\'s value, foreach_const leaves the table '
          'untouched, foreach completes the rehash and tolerates a callback that erases and poisons the visited element, clear hands every live element to a '
          'poisoning callback once and leaves a table equal to a freshly initialised one that works again after resize(2, NULL) + insert + find' % (lo, hi), unwind=12)
    return G
