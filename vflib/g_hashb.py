"""Chain-level (element-level) bounded checks of the incrementally rehashed hash table:
spec/s_hashb.c executed on concrete small tables against a reference model (C03, C04, C19 part)."""
from .run import Group

S = 'spec/s_hashb.c'
SRC = [('hash.c', {'normalise': True})]
SCOPE = ('static pool of 6 elements, keys from {0,1,2,3} (two elements may share a key), 1..4 buckets, '
         'hash functions k%m, (k/2)%m and constant 0; element pointers concrete; allocation does not fail')
FN = {0: 'div', 1: 'half', 2: 'zero'}


def groups():
    G = []

    def b(gid, props, harness, defines, what, unwind=10, **kw):
        kw.setdefault('timeout', 900)
        G.append(Group(gid, props, 'B', S, harness, sources=SRC, defines=defines, unwind=unwind, malloc_fail=False,
                       what=what, scope=SCOPE, replay=True, **kw))

    for f in (0, 1, 2):
        b('hashb.basic.%s' % FN[f], ['C03'], 'h_b_basic', ['-DVF_B=1', '-DVF_FSEL=%d' % f],
          'insert / find / erase with no rehash pending, table of 1..3 buckets hashed by %s, 7 key patterns of 0..4 elements incl. duplicates: '
          'reference-model check (chains + size + every live element found by key, visit function offered exactly the live elements with the key, '
          'NULL visit function) after every operation; erase of a non-member with a member\'s key, double erase, re-insert' % FN[f])
    return G
