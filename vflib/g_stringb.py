"""Bounded reference-string groups (C10)."""
from .run import Group


def groups():
    S = 'spec/s_stringb.c'
    src = ['vector.c', 'array.c', 'memory.c', 'string.c', '_string.c']
    G = []
    for w, d in (('narrow', []), ('wide', ['-DVF_S_WIDE'])):
      for nw, tier in ((3, 'quick'), (4, 'thorough')):
        G.append(Group('string.b.edit.%s.w%d' % (w, nw), ['C10'], 'B', S, 'h_b_edit', sources=src, defines=d + ['-DVF_W=%d' % nw], unwind=70, timeout=2400, replay=True, tier=tier,
                       apply_loops=False,
                       what='reference-string comparison after every edit (%s): set, insert (string / C string / repeated char) at every position, append, substr and erase with counts 0,1,2,SIZE_MAX-1,SIZE_MAX, resize down/up, swap, clear; find_ch/find_str/compare against the C library' % w,
                       scope='base words "", "a", "ab"%s x inserted words x every position; strings up to 15 characters' % (', "bab"' if nw == 4 else '')))
    return G
