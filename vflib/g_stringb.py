"""Bounded reference-string groups (C10)."""
from .run import Group


def groups():
    S = 'spec/s_stringb.c'
    src = ['vector.c', 'array.c', 'memory.c', 'string.c', '_string.c']
    G = []
    for w, d in (('narrow', []), ('wide', ['-DVF_S_WIDE'])):
        G.append(Group('string.b.edit.' + w, ['C10'], 'B', S, 'h_b_edit', sources=src, defines=d, unwind=40, timeout=2400, replay=True,
                       apply_loops=False,
                       what='reference-string comparison after every edit (%s): set, insert (string / C string / repeated char) at every position, append, substr and erase with counts 0,1,2,SIZE_MAX-1,SIZE_MAX, resize down/up, swap, clear; find_ch/find_str/compare against the C library' % w,
                       scope='base words "", "a", "ab", "bab" x inserted words x every position; strings up to 15 characters'))
    return G
