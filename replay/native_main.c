/* Generic native replay driver: runs one harness of a spec TU compiled with -DVF_NATIVE
 * against /repo's real sources, with the inputs extracted from CBMC's counterexample
 * given as name=value arguments. */
#include <stdio.h>
#include <stdlib.h>
#include <string.h>
#include <signal.h>
#include <setjmp.h>
#include <unistd.h>

int vf_argc;
char ** vf_argv;
int vf_native_failures;
unsigned long vf_native_checks, vf_native_scen, vf_native_scen_nt;
static const char * vf_msgs[512];
static int vf_nmsgs;
void vf_native_note(const char * msg)
{
    int i;
    for (i = 0; i < vf_nmsgs; i++) {
        if (vf_msgs[i] == msg) {
            return;
        }
    }
    if (vf_nmsgs < 512) {
        vf_msgs[vf_nmsgs++] = msg;
    }
}

struct vf_harness { const char * name; void (*fn)(void); };
extern struct vf_harness vf_harnesses[];

static sigjmp_buf vf_jb;
static volatile int vf_jb_armed;
static void vf_sig(int s)
{
    if (vf_jb_armed) {
        vf_jb_armed = 0;
        siglongjmp(vf_jb, s);
    }
    printf("NATIVE-SIGNAL: %d (%s) outside an expected-abort region\n", s, strsignal(s));
    fflush(stdout);
    _exit(70);
}

/* run fn(arg); returns 0 on normal return or the number of the signal that ended it */
int vf_try(void (*fn)(void *), void * arg)
{
    int s;
    if ((s = sigsetjmp(vf_jb, 1)) == 0) {
        vf_jb_armed = 1;
        fn(arg);
        vf_jb_armed = 0;
        return 0;
    }
    return s;
}

int main(int argc, char ** argv)
{
    struct vf_harness * h;
    struct sigaction sa;
    memset(&sa, 0, sizeof(sa));
    sa.sa_handler = vf_sig;
    sa.sa_flags = SA_NODEFER;
    sigaction(SIGABRT, &sa, NULL);
    sigaction(SIGSEGV, &sa, NULL);
    sigaction(SIGFPE, &sa, NULL);
    sigaction(SIGBUS, &sa, NULL);
    setvbuf(stdout, NULL, _IONBF, 0);
    if (argc < 2) {
        return 2;
    }
    vf_argc = argc - 2;
    vf_argv = argv + 2;
    for (h = vf_harnesses; h->name != NULL; h++) {
        if (strcmp(h->name, argv[1]) == 0) {
            h->fn();
            printf("NATIVE-STATS: checks=%lu distinct_check_sites=%d scenarios=%lu nontrivial_scenarios=%lu\n",
                   vf_native_checks, vf_nmsgs, vf_native_scen, vf_native_scen_nt);
            printf("NATIVE-RESULT: failures=%d\n", vf_native_failures);
            return vf_native_failures ? 1 : 0;
        }
    }
    printf("no native harness named %s\n", argv[1]);
    return 2;
}
